"""Rule implementations used by more than one property."""

from __future__ import annotations

import ast

from ..flow import flow_of, path_of
from ..loader import dotted, enclosing_stmt, last_name, short, walk_local

FRESH_ALLOC = {"zeros", "empty", "ones", "array", "copy", "zeros_like", "empty_like", "full", "asarray", "list", "dict"}


def _is_fresh(v):
    if isinstance(v, (ast.List, ast.Dict, ast.ListComp, ast.Tuple)):
        return True
    if isinstance(v, ast.Call):
        return last_name(v) in FRESH_ALLOC
    return False


def handed_out_buffers(ctx, rid, f, what):
    """A buffer appended to a returned list must not be written again.

    For every `L.append(B)` where L is (part of) the function's return value
    and B is a name: every path from the append to a later write into B
    (item/slice store, augmented item store, fill) passes a rebinding of B to
    a fresh allocation.  Otherwise all frames returned from one call share
    one array and show the values of the last (possibly partial) frame.
    """
    fl = flow_of(f)
    cfg = fl.cfg
    returned = set()
    for r in [n for n in walk_local(f) if isinstance(n, ast.Return) and n.value is not None]:
        elts = r.value.elts if isinstance(r.value, ast.Tuple) else [r.value]
        for e in elts:
            if isinstance(e, ast.Name):
                returned.add(e.id)
    n = 0
    for c in [c for c in walk_local(f) if isinstance(c, ast.Call) and isinstance(c.func, ast.Attribute) and c.func.attr == "append"]:
        L = path_of(c.func.value)
        if L not in returned or not c.args:
            continue
        B = c.args[0]
        if not isinstance(B, ast.Name):
            if _is_fresh(B):
                n += 1
                ctx.ok(rid, c, f"{f.name}: {what}: a freshly built object is appended to {L}")
            continue
        a = cfg.node_of(c)
        rebinds = [d.at for d in fl.defs if d.path == B.id and d.kind == "assign" and d.value is not None and _is_fresh(d.value)]
        writes = []
        for s in walk_local(f):
            if isinstance(s, (ast.Assign, ast.AugAssign)):
                tgts = s.targets if isinstance(s, ast.Assign) else [s.target]
                for t in tgts:
                    if isinstance(t, ast.Subscript) and path_of(t.value) == B.id:
                        writes.append(s)
            if isinstance(s, ast.Call) and isinstance(s.func, ast.Attribute) and s.func.attr in ("fill", "sort", "put", "resize", "append", "extend", "clear", "insert", "pop", "remove", "update", "reverse") and path_of(s.func.value) == B.id and s is not c:
                writes.append(s)
        n += 1
        r = cfg.reachable(a, avoid=rebinds)
        hit = [w for w in writes if cfg.node_of(w).id in r]
        if hit:
            ctx.bad(rid, c,
                    f"{f.name}: the array {B.id!r} is appended to the returned list {L!r} and written again ({short(hit[0], 50)}) without being re-allocated in between: "
                    "all frames returned from one call share one buffer and show the values of the last (possibly incomplete) frame",
                    construct=f"{L}.append({B.id}) ... {short(hit[0], 50)} without fresh allocation")
        else:
            ctx.ok(rid, c, f"{f.name}: {what}: {B.id!r} is re-allocated after being appended to {L!r}, before any further write")
    return n


MUTATOR_METHODS = {"append", "extend", "insert", "pop", "remove", "clear", "update", "setdefault", "popitem", "sort", "reverse", "fill", "add", "discard"}
DRAW_METHODS = {"random", "choice", "integers", "normal", "uniform", "shuffle", "permutation", "standard_normal"}


def _self_effects(methods):
    """name -> (attrs of self written, attrs of self read), transitively over self.<method>() calls."""
    from ..loader import FUNC
    from ..util import is_self_attr
    direct_w, direct_r, calls = {}, {}, {}
    for name, f in methods.items():
        w, r, c = set(), set(), set()
        for n in walk_local(f):
            tgts = []
            if isinstance(n, ast.Assign):
                tgts = n.targets
            elif isinstance(n, (ast.AugAssign, ast.AnnAssign)):
                tgts = [n.target]
            elif isinstance(n, ast.Delete):
                tgts = n.targets
            for t in tgts:
                for tt in (t.elts if isinstance(t, ast.Tuple) else [t]):
                    base = tt
                    while isinstance(base, (ast.Subscript,)):
                        base = base.value
                    if isinstance(base, ast.Attribute):
                        b2 = base
                        while isinstance(b2.value, (ast.Attribute, ast.Subscript)):
                            b2 = b2.value if isinstance(b2.value, ast.Attribute) else b2.value
                            if not isinstance(b2, ast.Attribute):
                                break
                        root = base
                        chain = []
                        x = tt
                        while isinstance(x, (ast.Attribute, ast.Subscript)):
                            if isinstance(x, ast.Attribute):
                                chain.append(x.attr)
                            x = x.value
                        if isinstance(x, ast.Name) and x.id == "self" and chain:
                            w.add(chain[-1])
            if isinstance(n, ast.Call) and isinstance(n.func, ast.Attribute):
                x = n.func.value
                chain = []
                while isinstance(x, (ast.Attribute, ast.Subscript)):
                    if isinstance(x, ast.Attribute):
                        chain.append(x.attr)
                    x = x.value
                if isinstance(x, ast.Name) and x.id == "self":
                    if not chain and n.func.attr in methods:
                        c.add(n.func.attr)
                    elif chain and n.func.attr in MUTATOR_METHODS:
                        w.add(chain[-1])
                    elif chain and chain[-1] == "rgen" and n.func.attr in DRAW_METHODS:
                        w.add("rgen")
            if isinstance(n, ast.Attribute) and isinstance(n.value, ast.Name) and n.value.id == "self":
                if n.attr in methods:
                    # property access counts as a call
                    c.add(n.attr)
                elif isinstance(n.ctx, ast.Load):
                    r.add(n.attr)
        direct_w[name], direct_r[name], calls[name] = w, r, c
    eff_w = {k: set(v) for k, v in direct_w.items()}
    eff_r = {k: set(v) for k, v in direct_r.items()}
    changed = True
    while changed:
        changed = False
        for name in methods:
            for c in calls[name]:
                if not eff_w[c] <= eff_w[name]:
                    eff_w[name] |= eff_w[c]
                    changed = True
                if not eff_r[c] <= eff_r[name]:
                    eff_r[name] |= eff_r[c]
                    changed = True
    return eff_w, eff_r, calls


def commit_is_final(ctx, rid, repex_rel="infretis/classes/repex.py"):
    """In treat_output nothing that the restart file serialises is modified after write_toml."""
    from ..cfg import cfg_of
    from ..loader import FUNC
    from ..util import is_self_attr
    tree = ctx.tree
    cls = tree.cls(repex_rel, "REPEX_state")
    methods = {}
    setters = {}
    for st in cls.body:
        if isinstance(st, FUNC):
            is_setter = any(isinstance(d, ast.Attribute) and d.attr == "setter" for d in st.decorator_list)
            if is_setter:
                setters[st.name] = st
            else:
                methods.setdefault(st.name, st)
    eff_w, eff_r, calls = _self_effects(methods)
    setter_w = {}
    for nm, st in setters.items():
        w, _, _ = _self_effects({nm: st})
        setter_w[nm] = w[nm]
    # logging helpers only evaluate the memoised P matrix; their own direct writes are still checked
    direct_only = {}
    for nm, st in methods.items():
        if nm.startswith("print"):
            w, _, _ = _self_effects({nm: st})
            direct_only[nm] = w[nm]
    persisted = set(eff_r["write_toml"]) - {"n", "_offset"}
    f = methods["treat_output"]
    cfg = cfg_of(f)
    commits = [c for c in walk_local(f) if isinstance(c, ast.Call) and is_self_attr(c.func, "write_toml")]
    if not commits:
        ctx.bad(rid, f, "treat_output does not commit")
        return
    bad = False
    for cm in commits:
        r = cfg.reachable(cfg.node_of(cm))
        for n in cfg.nodes:
            if n.id not in r or n.ast is None or n.kind not in ("stmt", "test", "loop", "with"):
                continue
            w = set()
            for x in ([n.ast] if not isinstance(n.ast, ast.stmt) else [n.ast]):
                for sub in walk_local(x):
                    if isinstance(sub, ast.Call) and is_self_attr(sub.func) and sub.func.attr in methods:
                        w |= direct_only.get(sub.func.attr, eff_w[sub.func.attr])
                    if isinstance(sub, ast.Attribute) and isinstance(sub.value, ast.Name) and sub.value.id == "self" and sub.attr in methods and isinstance(getattr(sub, "_parent", None), ast.Expr):
                        w |= eff_w[sub.attr]
                if isinstance(x, (ast.Assign, ast.AugAssign)):
                    for t in (x.targets if isinstance(x, ast.Assign) else [x.target]):
                        y = t
                        chain = []
                        while isinstance(y, (ast.Attribute, ast.Subscript)):
                            if isinstance(y, ast.Attribute):
                                chain.append(y.attr)
                            y = y.value
                        if isinstance(y, ast.Name) and y.id == "self" and chain:
                            if chain[-1] in setter_w:
                                w |= setter_w[chain[-1]]
                            else:
                                w.add(chain[-1])
            hit = sorted(w & persisted)
            if hit:
                bad = True
                ctx.bad(rid, n.ast,
                        f"treat_output modifies state that restart.toml serialises ({hit}) after write_toml: the restart file of this step does not describe the final state of the step "
                        "(e.g. live paths not yet re-sorted into ensembles where their weight is non-zero), so a restart after a kill fails or diverges",
                        construct="after write_toml: " + short(n.ast, 70))
    if not bad:
        ctx.ok(rid, commits[0], f"write_toml is the last statement of the step that touches persisted state {sorted(persisted)}")


def numeric_option_truthiness(ctx, rid, rels, what):
    """A numeric parameter that may legitimately be 0.0 (annotated float / Optional[float] /
    Union[float, bool], default None or False) is tested for being set with `is None` /
    `is not False`, never by truthiness (`x or d`, `if x:`, `not x`)."""
    from ..loader import FUNC
    n = 0
    for m, q, f in ctx.tree.all_funcs(rels):
        args = f.args.posonlyargs + f.args.args + f.args.kwonlyargs
        defaults = [None] * (len(f.args.posonlyargs + f.args.args) - len(f.args.defaults)) + list(f.args.defaults) + list(f.args.kw_defaults)
        cands = {}
        for a, d in zip(args, defaults):
            ann = ast.unparse(a.annotation) if a.annotation is not None else ""
            if "float" not in ann:
                continue
            if d is None or not (isinstance(d, ast.Constant) and d.value in (None, False)):
                continue
            cands[a.arg] = ann
        if not cands:
            continue
        for x in walk_local(f):
            tests = []
            if isinstance(x, ast.BoolOp):
                tests += x.values
            if isinstance(x, (ast.If, ast.While, ast.IfExp)):
                tests.append(x.test)
            if isinstance(x, ast.UnaryOp) and isinstance(x.op, ast.Not):
                tests.append(x.operand)
            for t in tests:
                if isinstance(t, ast.Name) and t.id in cands:
                    n += 1
                    ctx.bad(rid, x, f"{q}: the numeric parameter {t.id!r} ({cands[t.id]}) is tested by truthiness: a legitimate value of 0.0 is treated as 'not given' ({what})",
                            construct=short(x, 70))
        for nm in cands:
            ctx.ok(rid, f, f"{q}: optional numeric parameter {nm!r} is never tested by truthiness")
    return n


def numeric_or_default(ctx, rid, rels, what, funcs=None):
    """`value or <numeric default>` replaces a legitimate 0.0 by the default."""
    n = 0
    for m, q, f in ctx.tree.all_funcs(rels):
        if funcs is not None and q not in funcs:
            continue
        for x in walk_local(f):
            if isinstance(x, ast.BoolOp) and isinstance(x.op, ast.Or) and len(x.values) >= 2:
                last = x.values[-1]
                first = x.values[0]
                numeric_default = (isinstance(last, ast.Constant) and isinstance(last.value, (int, float)) and not isinstance(last.value, bool)) or (
                    isinstance(last, ast.Call) and dotted(last.func) in ("float", "int", "np.float64", "np.nan"))
                value_like = isinstance(first, (ast.Name, ast.Call, ast.Subscript, ast.Attribute)) and not (isinstance(first, ast.Call) and dotted(first.func) in ("isinstance", "hasattr", "callable", "len", "any", "all"))
                if numeric_default and value_like:
                    n += 1
                    ctx.bad(rid, x, f"{q}: `{short(x, 60)}` replaces a value of 0.0 by the default ({what})", construct=short(x, 70))
    return n


def frame_index_truthiness(ctx, rid, rels, what=""):
    """The frame index of a configuration reference `(file, idx)` may be 0: it is tested
    with `is None` / comparisons, never by truthiness (`if idx:`, `not idx`, `idx or d`).

    Candidates: names unpacked at position 1 from a `<x>.config` / `config` value,
    `<x>.config[1]` subscripts, and parameters named idx/index or annotated with int
    and defaulting to None."""
    def is_config(e):
        return (isinstance(e, ast.Attribute) and e.attr == "config") or (isinstance(e, ast.Name) and e.id == "config")

    for m, q, f in ctx.tree.all_funcs(rels):
        cands = set()
        args = f.args.posonlyargs + f.args.args + f.args.kwonlyargs
        defaults = [None] * (len(f.args.posonlyargs + f.args.args) - len(f.args.defaults)) + list(f.args.defaults) + list(f.args.kw_defaults)
        for a, d in zip(args, defaults):
            ann = ast.unparse(a.annotation) if a.annotation is not None else ""
            if a.arg in ("idx", "index", "frame_idx") or ("int" in ann.replace("interfaces", "") and isinstance(d, ast.Constant) and d.value is None):
                cands.add(a.arg)
        for n in walk_local(f):
            if isinstance(n, ast.Assign) and isinstance(n.targets[0], ast.Tuple) and len(n.targets[0].elts) == 2 and is_config(n.value):
                t1 = n.targets[0].elts[1]
                if isinstance(t1, ast.Name) and t1.id != "_":
                    cands.add(t1.id)
        if not cands:
            continue

        def is_cand(t):
            if isinstance(t, ast.Name) and t.id in cands:
                return t.id
            if isinstance(t, ast.Subscript) and is_config(t.value) and isinstance(t.slice, ast.Constant) and t.slice.value == 1:
                return ast.unparse(t)
            return None

        hit = set()
        for x in walk_local(f):
            tests = []
            if isinstance(x, ast.BoolOp):
                if isinstance(x.op, ast.Or) and len(x.values) == 2 and isinstance(x.values[1], ast.Constant) and x.values[1].value == 0 and x.values[1].value is not False:
                    continue  # `idx or 0`: index 0 stays 0
                tests += x.values
            if isinstance(x, (ast.If, ast.While, ast.IfExp)):
                tests.append(x.test)
            if isinstance(x, ast.UnaryOp) and isinstance(x.op, ast.Not):
                tests.append(x.operand)
            for t in tests:
                nm = is_cand(t)
                if nm and nm not in hit:
                    hit.add(nm)
                    ctx.bad(rid, x, f"{q}: the frame index `{nm}` is tested by truthiness: index 0 (the first frame of a trajectory file) is treated like 'no index'{what}",
                            construct=f"truthiness of frame index {nm} in {short(x, 50)}")
        for nm in sorted(cands - hit):
            ctx.ok(rid, f, f"{q}: frame index `{nm}` is never tested by truthiness")


# --------------------------------------------------------------------------
# positional role agreement (argument-selection / unpack-permutation defects)
# --------------------------------------------------------------------------

def _stem_eq(a, b):
    if a == b:
        return True
    if len(a) >= 3 and len(b) >= 3 and (a.startswith(b) or b.startswith(a)):
        return True
    return False


def _ret_name_tuples(f):
    outs = []
    for r in walk_local(f):
        if isinstance(r, ast.Return) and isinstance(r.value, ast.Tuple) and r.value.elts and sum(
            isinstance(e, (ast.Name, ast.Attribute)) for e in r.value.elts
        ) >= 2:
            # positions that are not plain names carry no role name ("?" never matches a target)
            outs.append([(e.id if isinstance(e, ast.Name) else e.attr if isinstance(e, ast.Attribute) else "?") for e in r.value.elts])
    return outs


def role_agreement(ctx, rid, rels, func_filter=None, what=""):
    """Callers and callees of the repository agree on the *position* of each role.

    (a) `a, b, c = f(...)`: when f returns a tuple of names, a target whose name
        is (a stem of) the name returned at another position, and not of the one
        returned at its own position, binds the wrong component.
    (b) `f(x, y)`: a positional argument whose name is another parameter's name
        while that other position is given the name of this parameter is a swap.
    Names are the repository's own vocabulary (xyz/vel/box/names, status/success/
    stop/add, dek/kin_new ...): the rule needs no table, only resolved callees.
    Callees are resolved by method/function name over the whole package; every
    definition of that name must be consistent for an instance to count.
    """
    tree = ctx.tree
    defs = {}
    for m, q, f in tree.all_funcs():
        defs.setdefault(f.name, []).append((m, q, f))
    for m, q, f in tree.all_funcs(rels):
        if func_filter is not None and not func_filter(q, f):
            continue
        for n in walk_local(f):
            if isinstance(n, ast.Assign) and isinstance(n.targets[0], ast.Tuple) and isinstance(n.value, ast.Call):
                cands = defs.get(last_name(n.value), [])
                tg = [e.id if isinstance(e, ast.Name) else None for e in n.targets[0].elts]
                seen_ok = False
                for cm, cq, cf in cands:
                    for rn in _ret_name_tuples(cf):
                        if len(rn) != len(tg):
                            continue
                        wrong = None
                        shared = 0
                        for i, x in enumerate(tg):
                            if not x or x == "_":
                                continue
                            if _stem_eq(x, rn[i]):
                                shared += 1
                                continue
                            for j, y in enumerate(rn):
                                if j != i and _stem_eq(x, y):
                                    wrong = (x, i, j, cq, rn)
                        if wrong:
                            x, i, j, cq_, rn_ = wrong
                            ctx.bad(rid, n, f"`{x}` is bound to component {i} (`{rn_[i]}`) of what {cq_} returns, but that function returns `{rn_[j]}` at position {j}: the components are permuted{what}",
                                    construct=short(n, 80), detail={"callee": cq_, "returned": ", ".join(rn_)})
                        elif shared:
                            seen_ok = True
                if seen_ok:
                    ctx.ok(rid, n, "unpacked names agree by position with the names the callee returns")
            if isinstance(n, ast.Call) and len(n.args) >= 2 and not (last_name(n) or "").startswith("__"):
                cands = defs.get(last_name(n), [])
                matched = False
                for cm, cq, cf in cands:
                    params = [p.arg for p in cf.args.posonlyargs + cf.args.args]
                    if params and params[0] in ("self", "cls") and isinstance(n.func, ast.Attribute):
                        params = params[1:]
                    if any(isinstance(a, ast.Starred) for a in n.args):
                        continue
                    for i, a in enumerate(n.args):
                        if not isinstance(a, ast.Name) or i >= len(params):
                            continue
                        if _stem_eq(a.id, params[i]):
                            matched = True
                            continue
                        hit = [p_ for p_ in params if _stem_eq(a.id, p_)]
                        if hit:
                            j = params.index(hit[0])
                            if j < len(n.args) and isinstance(n.args[j], ast.Name) and n.args[j].id != params[j]:
                                ctx.bad(rid, n, f"arguments `{a.id}` and `{n.args[j].id}` are passed in each other's position to {cq}({', '.join(params)}){what}",
                                        construct=short(n, 80), detail={"callee": cq})
                if matched:
                    ctx.ok(rid, n, "positional arguments named like the callee's parameters are in those parameters' positions")


# --------------------------------------------------------------------------
# stale loop variable
# --------------------------------------------------------------------------

def _for_targets(t_):
    if isinstance(t_, ast.Name):
        yield t_.id
    elif isinstance(t_, (ast.Tuple, ast.List)):
        for e in t_.elts:
            yield from _for_targets(e)
    elif isinstance(t_, ast.Starred):
        yield from _for_targets(t_.value)


def stale_loop_variable(ctx, rid, rels, func_filter=None, what=""):
    """A `for` variable is not read after its loop has ended.

    A read of a name all of whose reaching definitions are targets of `for` loops
    that do not enclose the read (typically inside a later loop whose own variable
    was renamed, or in a statement moved out of the loop) denotes the *last* element
    a finished loop visited, not the element the reading code is about."""
    for m, q, f in ctx.tree.all_funcs(rels):
        if func_filter is not None and not func_filter(q, f):
            continue
        loops = [n for n in walk_local(f) if isinstance(n, (ast.For, ast.AsyncFor))]
        if not loops:
            continue
        bound = {}
        for L in loops:
            for nm in _for_targets(L.target):
                if nm != "_":
                    bound.setdefault(nm, []).append(L)
        inside = {id(L): {id(x) for x in ast.walk(L)} for L in loops}
        fl = None
        flagged_loops = set()
        seen_keys = set()
        for n in walk_local(f):
            if not (isinstance(n, ast.Name) and isinstance(n.ctx, ast.Load) and n.id in bound):
                continue
            Ls = bound[n.id]
            comp_bound = False
            p = getattr(n, "_parent", None)
            while p is not None and p is not f:
                if isinstance(p, (ast.ListComp, ast.SetComp, ast.DictComp, ast.GeneratorExp)) and any(
                    n.id in set(_for_targets(g.target)) for g in p.generators
                ):
                    comp_bound = True
                    break
                p = getattr(p, "_parent", None)
            if comp_bound:
                continue  # the comprehension's own variable
            if any(id(n) in inside[id(L)] for L in Ls):
                continue  # read inside (one of) its own loop(s)
            if not any((n.lineno, n.col_offset) > (L.end_lineno, L.end_col_offset) for L in Ls):
                continue
            if fl is None:
                fl = flow_of(f)
            try:
                at = fl.cfg.node_of(n)
            except Exception:
                continue
            defs = [d for d, _ in fl.rd(n.id, at)]
            if not defs:
                continue
            if all(d.kind == "iter" and isinstance(d.stmt, (ast.For, ast.AsyncFor)) and id(n) not in inside.get(id(d.stmt), ()) for d in defs):
                L = defs[0].stmt
                flagged_loops.add(id(L))
                key = (n.id, L.lineno)
                if key in seen_keys:
                    continue
                seen_keys.add(key)
                ctx.bad(rid, n, f"`{n.id}` is the variable of the loop `for {short(L.target, 30)} in {short(L.iter, 40)}` that has already ended; read here it is the last element that loop visited, not the element this statement is about{what}",
                        construct=f"stale loop variable {n.id} in {short(enclosing_stmt(n), 60)}")
        for L in loops:
            if id(L) not in flagged_loops:
                ctx.ok(rid, L, f"{q}: variables of `for {short(L.target, 30)}` are not read after the loop", nontrivial=False)


class RuleProxy:
    """Report another property's rule under this property's rule id."""

    def __init__(self, c, rid, suffix=""):
        self._c = c
        self._rid = rid
        self._suffix = suffix
        self.tree = c.tree
        self.tier = getattr(c, "tier", "quick")

    def rule(self, *a, **k):
        pass

    def ok(self, rid, node, what, nontrivial=True):
        self._c.ok(self._rid, node, what, nontrivial)

    def bad(self, rid, node, message, **kw):
        self._c.bad(self._rid, node, message + self._suffix, **kw)

    def note(self, m):
        self._c.note(m)

    def attempt(self, fn, *args):
        return self._c.attempt(fn, *args)


# --------------------------------------------------------------------------
# configuration keys are read under one section
# --------------------------------------------------------------------------

_CFG_ROOTS = {"config", "self.config", "state.config"}


def _cfg_chain(e, env):
    keys = []
    while True:
        if isinstance(e, ast.Subscript) and isinstance(e.slice, ast.Constant) and isinstance(e.slice.value, str):
            keys.append(e.slice.value)
            e = e.value
        elif (isinstance(e, ast.Call) and isinstance(e.func, ast.Attribute) and e.func.attr in ("get", "setdefault", "pop") and e.args
              and isinstance(e.args[0], ast.Constant) and isinstance(e.args[0].value, str)):
            keys.append(e.args[0].value)
            e = e.func.value
        else:
            break
    keys.reverse()
    try:
        txt = ast.unparse(e)
    except Exception:
        return None
    if txt in _CFG_ROOTS or txt.endswith(".config"):
        return keys
    if isinstance(e, ast.Name) and e.id in env:
        return env[e.id] + keys
    return None


def _cfg_env(f):
    """name -> config path for the local names of f that hold (a sub-dict of) the run
    configuration: locals loaded from a TOML file / returned by setup_config / copies and
    aliases of those are roots (path []), `x = <root>[...]...` are sub-dicts."""
    env = {}

    def is_root_expr(v):
        if isinstance(v, ast.Name):
            return v.id in env and env[v.id] == []
        if isinstance(v, ast.IfExp):
            return is_root_expr(v.body) and is_root_expr(v.orelse)
        if isinstance(v, ast.Call):
            d = dotted(v.func)
            if last_name(v) in ("load", "loads") and d.split(".")[0] in ("tomli", "tomllib", "toml"):
                return True
            if last_name(v) == "setup_config":
                return True
            if last_name(v) in ("deepcopy", "copy", "dict") and v.args and is_root_expr(v.args[0]):
                return True
        return False

    for a in f.args.posonlyargs + f.args.args + f.args.kwonlyargs:
        if a.arg in ("config", "re_config"):
            env[a.arg] = []
    for _ in range(4):
        changed = False
        for n in walk_local(f):
            if isinstance(n, ast.Assign) and len(n.targets) == 1 and isinstance(n.targets[0], ast.Name):
                nm = n.targets[0].id
                if is_root_expr(n.value):
                    if env.get(nm) != []:
                        env[nm] = []
                        changed = True
                    continue
                c = _cfg_chain(n.value, env)
                if c and env.get(nm) != c and nm not in env:
                    env[nm] = c
                    changed = True
        if not changed:
            break
    return env


def config_section_agreement(ctx, rid, what=""):
    """Every key of the run configuration is accessed under one section path in the whole
    package (aliases such as `sim = self.config["simulation"]` resolved). A key that one
    site looks up in another section than all other sites is silently absent there
    (`.get(k, default)` returns the default)."""
    import collections
    sites = collections.defaultdict(list)
    for m, q, f in ctx.tree.all_funcs():
        if m.rel.startswith("infretis/tools"):
            continue
        env = _cfg_env(f)
        for n in walk_local(f):
            if not isinstance(n, (ast.Subscript, ast.Call)):
                continue
            par = getattr(n, "_parent", None)
            if isinstance(par, ast.Subscript) and par.value is n:
                continue
            if isinstance(par, ast.Attribute) and par.attr in ("get", "setdefault", "pop") and par.value is n:
                continue
            c = _cfg_chain(n, env)
            if not c:
                continue
            for i in range(1, len(c) + 1):
                sites[c[i - 1]].append((tuple(c[: i - 1]), n, q))
    if len(sites) < 20:
        from ..loader import AnalysisError
        raise AnalysisError(f"{rid}: only {len(sites)} configuration keys found (expected >= 20)")
    for k, v in sorted(sites.items()):
        cnt = collections.Counter(p for p, _, _ in v)
        if len(cnt) == 1:
            ctx.ok(rid, v[0][1], f"key {k!r}: all {len(v)} accesses under {'/'.join(next(iter(cnt))) or '<root>'}", nontrivial=len(v) > 1)
            continue
        top = cnt.most_common()
        major = top[0][0] if top[0][1] > top[1][1] else None
        for p, node, q in v:
            if p != major:
                ctx.bad(rid, node, f"{q}: the configuration key {k!r} is looked up under [{'.'.join(p) or '<root>'}] here but under [{'.'.join(major) if major else ' / '.join('.'.join(x) for x in cnt)}] elsewhere in the package: at one of the places the key is silently absent (a `.get` returns its default){what}",
                        construct=f"config key {k} under {'.'.join(p) or '<root>'}")


# --------------------------------------------------------------------------
# configuration origin of an expression / agreement between call sites
# --------------------------------------------------------------------------

def config_origin_tables(tree):
    """(properties, dictkeys): REPEX_state properties that return a config chain, and keys of
    dict literals (anywhere in the package) whose value has a config origin."""
    from ..loader import FUNC
    from ..util import REPEX
    props = {}
    cls = tree.cls(REPEX, "REPEX_state")
    for st in cls.body:
        if isinstance(st, FUNC) and any(isinstance(d, ast.Name) and d.id == "property" for d in st.decorator_list):
            rets = [r for r in walk_local(st) if isinstance(r, ast.Return) and r.value is not None]
            if len(rets) == 1:
                c = _cfg_chain(rets[0].value, {})
                if c:
                    props[st.name] = tuple(c)
    dictkeys = {}
    for m, q, f in tree.all_funcs():
        if m.rel.startswith("infretis/tools"):
            continue
        fenv = None
        for d in [x for x in walk_local(f) if isinstance(x, ast.Dict)]:
            for k, v in zip(d.keys, d.values):
                if not (isinstance(k, ast.Constant) and isinstance(k.value, str)):
                    continue
                o = None
                if fenv is None:
                    fenv = _cfg_env(f)  # locals that alias (a section of) the configuration
                c = _cfg_chain(v, fenv)
                if c:
                    o = tuple(c)
                elif isinstance(v, ast.Attribute) and isinstance(v.value, ast.Name) and v.attr in props:
                    # <scheduler object>.<property>: the property names of REPEX_state are its own vocabulary
                    o = props[v.attr]
                if o is not None:
                    dictkeys.setdefault(k.value, set()).add(o)
    return props, dictkeys


def config_origin(e, props, dictkeys):
    """Config path a value comes from, or None."""
    c = _cfg_chain(e, {})
    if c:
        return tuple(c)
    if isinstance(e, ast.Attribute) and isinstance(e.value, ast.Name) and e.attr in props:
        return props[e.attr]
    # X[...]["k1"]["k2"]: the first key that names a config-backed dict entry
    keys = []
    b = e
    while isinstance(b, ast.Subscript):
        keys.append(b.slice.value if isinstance(b.slice, ast.Constant) else None)
        b = b.value
    keys.reverse()
    for i, k in enumerate(keys):
        if isinstance(k, str) and k in dictkeys and len(dictkeys[k]) == 1 and all(isinstance(x, str) for x in keys[i + 1:]):
            return tuple(next(iter(dictkeys[k]))) + tuple(keys[i + 1:])
    return None


def callsite_config_agreement(ctx, rid, callee, params, what=""):
    """All call sites of `callee` pass, for each of `params`, a value with the same
    configuration origin (same key of the run configuration)."""
    tree = ctx.tree
    props, dictkeys = config_origin_tables(tree)
    target = None
    for m, q, f in tree.all_funcs():
        if f.name == callee and "." not in q:
            target = f
    if target is None:
        from ..loader import AnalysisError
        raise AnalysisError(f"{rid}: function {callee} not found")
    pnames = [a.arg for a in target.args.posonlyargs + target.args.args]
    sites = []
    owner = {}
    for m, q, f in tree.all_funcs():
        if m.rel.startswith("infretis/tools"):
            continue
        for c in walk_local(f):
            if isinstance(c, ast.Call) and last_name(c) == callee and f is not target:
                sites.append((q, c))
                owner[id(c)] = f

    def _through_local(arg, c):
        """a local that holds the configuration value: `lm1 = cfg[...][...]` hoisted above the call"""
        if isinstance(arg, ast.Name):
            from ..flow import deref as _deref, flow_of as _flow_of
            try:
                fl_ = _flow_of(owner[id(c)])
                e2, _ = _deref(fl_, arg, fl_.cfg.node_of(c))
                return e2
            except Exception:
                return arg
        return arg
    if len(sites) < 2:
        from ..loader import AnalysisError
        raise AnalysisError(f"{rid}: {len(sites)} call site(s) of {callee} found (expected >= 2)")
    for p in params:
        origins = []
        for q, c in sites:
            arg = None
            if p in pnames and pnames.index(p) < len(c.args):
                arg = c.args[pnames.index(p)]
            for k in c.keywords:
                if k.arg == p:
                    arg = k.value
            if arg is not None:
                arg = _through_local(arg, c)
            origins.append((q, c, arg, config_origin(arg, props, dictkeys) if arg is not None else "<default>"))
        vals = {o for _, _, _, o in origins}
        if len(vals) == 1 and None not in vals:
            ctx.ok(rid, sites[0][1], f"{callee}(... {p} ...): every call site passes configuration key {'.'.join(next(iter(vals))) if isinstance(next(iter(vals)), tuple) else next(iter(vals))}")
            continue
        # majority / reference: the origins that are config paths
        import collections
        cnt = collections.Counter(o for _, _, _, o in origins if isinstance(o, tuple))
        ref = cnt.most_common(1)[0][0] if cnt else None
        for q, c, arg, o in origins:
            if o != ref or ref is None:
                shown = "the default" if o == "<default>" else ("an expression that is not a configuration key: " + short(arg, 40) if o is None else ".".join(o))
                ctx.bad(rid, c, f"{q}: {callee} is called with {p} = {shown}, while another call site passes {'.'.join(ref) if ref else 'something else'}: the same path gets different weights depending on where it is (re)computed{what}",
                        construct=f"{callee}({p}=...) in {q}")



def restart_preserves_settings(ctx, rid, what=""):
    """On the restart path of setup_config (input with a [current] section) the persisted run
    settings are not rewritten: every store into the configuration outside `current` is either
    in the fresh-start branch, or idempotent (`cfg[k] = cfg.get(k, default)`), or guarded by a
    test of that key's absence."""
    from ..cfg import cfg_of
    from ..loader import AnalysisError
    from ..util import SETUP
    f = ctx.tree.func(SETUP, "setup_config")
    fl = flow_of(f)
    cfg = fl.cfg
    # the restart test
    rt = None
    fresh_branch = None
    for n in walk_local(f):
        if not isinstance(n, ast.If):
            continue
        t, neg = n.test, False
        while isinstance(t, ast.UnaryOp) and isinstance(t.op, ast.Not):
            t, neg = t.operand, not neg
        if isinstance(t, ast.Compare) and len(t.ops) == 1 and isinstance(t.left, ast.Constant) and t.left.value == "current" and isinstance(t.ops[0], (ast.In, ast.NotIn)):
            if isinstance(t.ops[0], ast.NotIn):
                neg = not neg
            rt = n
            fresh_branch = n.body if neg else n.orelse  # the branch taken when there is no [current] section
    if rt is None:
        raise AnalysisError(f"{rid}: the test for a [current] section (`\"current\" in config`) was not found in setup_config")
    fresh = {id(x) for st in fresh_branch for x in ast.walk(st)}
    env = _cfg_env(f)
    cnt = 0
    for st in walk_local(f):
        if not isinstance(st, ast.Assign) or id(st) in fresh:
            continue
        for t in st.targets:
            if not isinstance(t, ast.Subscript):
                continue
            chain = _cfg_chain(t, env)
            if chain is None:
                # element store below a config key: cfg[...]["k"][0] = ...
                b = t
                while isinstance(b, ast.Subscript) and _cfg_chain(b, env) is None:
                    b = b.value
                chain = _cfg_chain(b, env) if isinstance(b, ast.Subscript) else None
            if not chain:
                continue
            cnt += 1
            if chain[0] == "current":
                ctx.ok(rid, st, "restart path: store under [current] (run state, not a setting)", nontrivial=False)
                continue
            key = chain[-1]
            # idempotent default
            vchain = _cfg_chain(st.value, env)
            srcs = []
            if isinstance(st.value, ast.Name):
                for d, _ in fl.rd(st.value.id, cfg.node_of(st)):
                    if isinstance(getattr(d, "value", None), ast.AST):
                        srcs.append(d.value)
            idem = (vchain is not None and vchain == chain) or any(_cfg_chain(v, env) == chain for v in srcs)
            # guard on the key's absence
            guarded = False
            for e, truth, bn in cfg.guards(cfg.node_of(st)):
                txt = ast.unparse(e)
                names = [x.id for x in ast.walk(e) if isinstance(x, ast.Name)]
                exprs = [txt]
                for nm in names:
                    for d, _ in fl.rd(nm, bn):
                        if isinstance(getattr(d, "value", None), ast.AST):
                            exprs.append(ast.unparse(d.value))
                if any(repr(key).replace("'", '"') in x.replace("'", '"') for x in exprs):
                    guarded = True
            if idem or guarded:
                ctx.ok(rid, st, f"restart path: `{short(st, 50)}` only fills in a default for a missing {key!r}")
            else:
                ctx.bad(rid, st, f"setup_config overwrites the persisted setting [{'.'.join(chain)}] when it restarts from restart.toml: the continued run does not use what the interrupted run used{what}",
                        construct=f"restart path rewrites {'.'.join(chain)}")
    if cnt < 4:
        raise AnalysisError(f"{rid}: only {cnt} configuration stores found on the restart path of setup_config (expected >= 4)")



def whole_busy_set(ctx, rid, what=""):
    """Every membership test against the busy paths consults the whole set returned by
    locked_paths(): the collection on the right of `in` / `not in` is value-equal to the call
    itself, not a slice, filter or copy with elements removed."""
    from ..loader import FUNC, AnalysisError
    from ..util import REPEX
    cls = ctx.tree.cls(REPEX, "REPEX_state")
    n = 0
    covered = set()
    for f in [s_ for s_ in cls.body if isinstance(s_, FUNC)]:
        fl = None
        for c in [x for x in walk_local(f) if isinstance(x, ast.Compare) and len(x.ops) == 1 and isinstance(x.ops[0], (ast.In, ast.NotIn))]:
            coll = c.comparators[0]
            fl = fl or flow_of(f)
            try:
                at = fl.cfg.node_of(c)
            except Exception:
                continue
            cands = [coll] if not isinstance(coll, ast.Name) else []
            if isinstance(coll, ast.Name):
                seen_names = set()
                todo = [(coll.id, at)]
                while todo:
                    nm, where = todo.pop()
                    if (nm, where.id) in seen_names:
                        continue
                    seen_names.add((nm, where.id))
                    for d, _ in fl.rd(nm, where):
                        v = getattr(d, "value", None)
                        if isinstance(v, ast.Name):
                            todo.append((v.id, d.at))
                        elif isinstance(v, ast.AST):
                            cands.append(v)
            rel = [v for v in cands if any(isinstance(x, ast.Call) and last_name(x) == "locked_paths" for x in ast.walk(v))]
            if not rel:
                # a busy set derived from the in-flight record instead: it must contain *every* path of every job
                left_is_pn = "path_number" in ast.unparse(c.left) or (isinstance(c.left, ast.Name) and c.left.id in ("live", "pn", "pnum"))
                rec = [v for v in cands if any(isinstance(x, ast.Attribute) and x.attr == "locked" and isinstance(x.value, ast.Name) and x.value.id == "self" for x in ast.walk(v))]
                if left_is_pn and rec:
                    n += 1
                    covered.add(f.name)
                    q = getattr(f, "_fq", f.name)
                    for v in rec:
                        comp = v if isinstance(v, (ast.ListComp, ast.SetComp, ast.GeneratorExp)) else next((x for x in ast.walk(v) if isinstance(x, (ast.ListComp, ast.SetComp, ast.GeneratorExp))), None)
                        partial = comp is not None and len(comp.generators) == 1 and any(isinstance(x, ast.Subscript) and isinstance(x.slice, ast.Constant) and isinstance(x.slice.value, int) for x in ast.walk(comp.elt))
                        if comp is not None and not partial and len(comp.generators) >= 2:
                            ctx.ok(rid, c, f"{q}: `{short(c, 40)}` consults every path of every job of the in-flight record")
                        else:
                            ctx.bad(rid, c, f"{q}: the busy-path test `{short(c, 40)}` consults `{short(v, 50)}`: one path per in-flight job; the second path of a zero-swap job ([0+]) is treated as idle - it can be moved by the re-sort and credited weight while its job is still running{what}",
                                    construct=f"{q}: busy set with one path per job: {short(v, 50)}")
                continue
            n += 1
            covered.add(f.name)
            q = getattr(f, "_fq", f.name)
            for v in rel:
                if isinstance(v, ast.Call) and last_name(v) == "locked_paths" and not v.args:
                    ctx.ok(rid, c, f"{q}: `{short(c, 40)}` consults the whole busy set")
                else:
                    ctx.bad(rid, c, f"{q}: the busy-path test `{short(c, 40)}` consults `{short(v, 40)}`, not the whole result of locked_paths(): a path held by an in-flight job is treated as idle{what}",
                            construct=f"{q}: busy set reduced to {short(v, 40)}")
    if n < 2:
        raise AnalysisError(f"{rid}: only {n} membership tests against locked_paths() found (expected >= 2: sort_trajstate, treat_output)")
    return covered



def commit_refreshes_state(ctx, rid, what=""):
    """write_toml refreshes the run state it persists on every call: for each key K that it
    stores as self.config["current"][K] = ..., one such store dominates the dump (it is executed
    on every path to the file write - not only inside a loop that may run zero times or under a
    condition)."""
    from ..cfg import cfg_of
    from ..loader import AnalysisError
    from ..util import REPEX
    f = ctx.tree.func(REPEX, "REPEX_state.write_toml")
    cfg = cfg_of(f)
    dumps = [c for c in walk_local(f) if isinstance(c, ast.Call) and last_name(c) in ("dump", "dumps")]
    if len(dumps) != 1:
        raise AnalysisError(f"{rid}: exactly one dump call expected in write_toml")
    dn = cfg.node_of(dumps[0])
    cenv = _cfg_env(f)
    keys = {}
    for st in walk_local(f):
        if isinstance(st, ast.Assign) and len(st.targets) == 1:
            c = _cfg_chain(st.targets[0], cenv)
            if c and len(c) == 2 and c[0] == "current":
                keys.setdefault(c[1], []).append(st)
    if len(keys) < 3:
        raise AnalysisError(f"{rid}: only {len(keys)} keys of [current] stored by write_toml (expected >= 3)")
    for k, sts in sorted(keys.items()):
        if any(cfg.dominates(nd, dn) for st in sts for nd in cfg.nodes_of(st)):
            ctx.ok(rid, sts[0], f"write_toml: current.{k} is refreshed on every path to the file write")
        else:
            ctx.bad(rid, sts[0], f"write_toml stores current.{k} only conditionally (inside a loop that may not run, or under a test): when that code is skipped the restart file keeps the value of an earlier step{what}",
                    construct=f"write_toml: conditional refresh of current.{k}")


# --------------------------------------------------------------------------------------------
# record (dict-shape) agreement: the ensemble dictionary is a closed record
# --------------------------------------------------------------------------------------------
ENSEMBLE_NAMES = ("ens_set", "sub_ens", "ens_pick")


def _ensemble_locals(fn, base_keys):
    """Names of a function that hold an ensemble dictionary: a parameter called like one (the
    repository's vocabulary), a local taken from `self.ensembles[...]`, or a local built as a
    dict literal with the record's characteristic keys."""
    out = {a.arg for a in fn.args.args + fn.args.kwonlyargs if a.arg in ENSEMBLE_NAMES}
    for n in walk_local(fn):
        if isinstance(n, ast.Assign) and len(n.targets) == 1 and isinstance(n.targets[0], ast.Name):
            v = n.value
            if isinstance(v, ast.Subscript) and path_of(v.value) in ("self.ensembles", "state.ensembles"):
                out.add(n.targets[0].id)
            if isinstance(v, ast.Dict):
                ks = {k.value for k in v.keys if isinstance(k, ast.Constant) and isinstance(k.value, str)}
                if {"interfaces", "tis_set"} <= ks:
                    out.add(n.targets[0].id)
    return out


def ensemble_record_keys(tree):
    """Key set of an ensemble dictionary, read from the repository itself: the dict literal that
    initiate_ensembles stores into the ensemble table, plus every string key stored later into a
    value taken from `self.ensembles[...]` (the per-job stream), plus the literal of the
    wire-fencing sub-ensemble."""
    from ..util import REPEX, TIS
    keys = set()
    f = tree.func(REPEX, "REPEX_state.initiate_ensembles")
    lits = [n.value for n in walk_local(f) if isinstance(n, ast.Assign) and isinstance(n.value, ast.Dict) and any(isinstance(t, ast.Subscript) for t in n.targets)]
    if not lits:
        from ..loader import AnalysisError
        raise AnalysisError("ensemble record: the dict literal of initiate_ensembles was not found")
    for d in lits:
        keys |= {k.value for k in d.keys if isinstance(k, ast.Constant) and isinstance(k.value, str)}
    base = set(keys)
    for rel in (REPEX, TIS):
        for m, q, fn in tree.all_funcs([rel]):
            ens_locals = _ensemble_locals(fn, base)
            for n in walk_local(fn):
                if isinstance(n, ast.Assign):
                    for t in n.targets:
                        if isinstance(t, ast.Subscript) and isinstance(t.value, ast.Name) and t.value.id in ens_locals and isinstance(t.slice, ast.Constant) and isinstance(t.slice.value, str):
                            keys.add(t.slice.value)
                    if isinstance(n.value, ast.Dict) and any(isinstance(t, ast.Name) and t.id in ens_locals for t in n.targets):
                        keys |= {k.value for k in n.value.keys if isinstance(k, ast.Constant) and isinstance(k.value, str)}
    return keys


def _keys_read_from_param(f, pname):
    """String keys a function looks up in its parameter `pname` (p["k"], p.get("k"...), "k" in p)."""
    out = {}
    for n in walk_local(f):
        if isinstance(n, ast.Subscript) and isinstance(n.value, ast.Name) and n.value.id == pname and isinstance(n.slice, ast.Constant) and isinstance(n.slice.value, str) and isinstance(n.ctx, ast.Load):
            out.setdefault(n.slice.value, n)
        if isinstance(n, ast.Call) and isinstance(n.func, ast.Attribute) and n.func.attr in ("get", "pop", "setdefault") and isinstance(n.func.value, ast.Name) and n.func.value.id == pname and n.args and isinstance(n.args[0], ast.Constant) and isinstance(n.args[0].value, str):
            out.setdefault(n.args[0].value, n)
        if isinstance(n, ast.Compare) and len(n.ops) == 1 and isinstance(n.ops[0], (ast.In, ast.NotIn)) and isinstance(n.left, ast.Constant) and isinstance(n.left.value, str) and isinstance(n.comparators[0], ast.Name) and n.comparators[0].id == pname:
            out.setdefault(n.left.value, n)
    return out


def ensemble_record_agreement(ctx, rid, rels, callee_filter=None, what=""):
    """A callee that is handed an ensemble dictionary (an argument that is the bare name of an
    ensemble: `ens_set`, `sub_ens`, `ens_pick`) looks up only keys an ensemble dictionary has.
    `.get(key, default)` on a key the record never holds does not fail: the option is silently
    replaced by the callee's default - e.g. velocity settings looked up in the ensemble instead
    of its `tis_set`."""
    tree = ctx.tree
    keys = ensemble_record_keys(tree)
    defs = {}
    for m, q, f in tree.all_funcs():
        defs.setdefault(f.name, []).append((m, q, f))
    n = 0
    for m, q, f in tree.all_funcs(rels):
        ens_locals = _ensemble_locals(f, keys)
        for c in [x for x in walk_local(f) if isinstance(x, ast.Call)]:
            nm = c.func.attr if isinstance(c.func, ast.Attribute) else (c.func.id if isinstance(c.func, ast.Name) else None)
            if nm is None or nm not in defs or nm.startswith("__"):
                continue
            if callee_filter is not None and not callee_filter(nm):
                continue
            for i, a in enumerate(c.args):
                if not (isinstance(a, ast.Name) and a.id in ens_locals):
                    continue
                for dm, dq, df in defs[nm]:
                    ps = [x.arg for x in df.args.args]
                    if "." in dq and ps and ps[0] in ("self", "cls") and isinstance(c.func, ast.Attribute):
                        ps = ps[1:]
                    if i >= len(ps):
                        continue
                    read = _keys_read_from_param(df, ps[i])
                    if not read:
                        continue
                    n += 1
                    missing = sorted(k for k in read if k not in keys)
                    if missing:
                        ctx.bad(rid, c, f"{q} passes the ensemble dictionary `{a.id}` as `{ps[i]}` of {dq}, which looks up {missing} in it; an ensemble dictionary has the keys {sorted(keys)} only, so the lookup silently yields the callee's default and the configured value is ignored{what}",
                                construct=f"{short(c, 60)} -> {dq}({ps[i]})")
                    else:
                        ctx.ok(rid, c, f"{dq} reads {sorted(read)} from `{ps[i]}`: all keys of an ensemble dictionary")
    return n


# --------------------------------------------------------------------------------------------
# the restart tag of a reloaded path is not a branch condition of the run
# --------------------------------------------------------------------------------------------
def restart_tag_not_tested(ctx, rid, what=""):
    """load_paths_from_disk tags every path it reloads at a restart (the tag is read from its
    source). In the uninterrupted run the same path carries the tag of the move that generated
    it; for restart equivalence nothing in the move / scheduler code may branch on the restart
    tag. (The tag of hand-made initial paths is a different, documented exemption.)"""
    from ..flow import deref, flow_of
    from ..loader import AnalysisError
    from ..util import PATH, REPEX, TIS, SCHED
    tree = ctx.tree
    f = tree.func(PATH, "load_paths_from_disk")
    tag = None
    for n in walk_local(f):
        if isinstance(n, ast.IfExp) and "restarted_from" in ast.unparse(n.test):
            isin = isinstance(n.test, ast.Compare) and isinstance(n.test.ops[0], ast.In)
            v = n.body if isin else n.orelse
            if isinstance(v, ast.Constant) and isinstance(v.value, str):
                tag = v.value
        if isinstance(n, ast.If) and "restarted_from" in ast.unparse(n.test):
            for st in n.body:
                if isinstance(st, ast.Assign) and isinstance(st.value, ast.Constant) and isinstance(st.value.value, str):
                    tag = st.value.value
    if tag is None:
        raise AnalysisError(f"{rid}: the tag that load_paths_from_disk gives to paths reloaded at a restart was not found")
    n_tests = 0
    for m, q, g in tree.all_funcs([TIS, REPEX, PATH, SCHED]):
        fl = None
        for c in [x for x in walk_local(g) if isinstance(x, ast.Compare) and len(x.ops) == 1]:
            sides = [c.left, c.comparators[0]]
            movers = []
            for s_ in sides:
                e = s_
                if isinstance(e, ast.Name):
                    if fl is None:
                        fl = flow_of(g)
                    try:
                        e, _ = deref(fl, e, fl.cfg.node_of(c))
                    except Exception:
                        e = s_
                txt = ast.unparse(e)
                if (isinstance(e, ast.Call) and last_name(e) == "get_move") or txt.endswith(".generated[0]"):
                    movers.append(s_)
            if not movers:
                continue
            n_tests += 1
            consts = set()
            for s_ in sides:
                if s_ in movers:
                    continue
                for x in ast.walk(s_):
                    if isinstance(x, ast.Constant) and isinstance(x.value, str):
                        consts.add(x.value)
            if tag in consts:
                ctx.bad(rid, c, f"{q} branches on the tag '{tag}' that load_paths_from_disk gives to paths reloaded at a restart (`{short(c, 60)}`): in the uninterrupted run the same path carries the tag of the move that generated it, so the continued run treats it differently{what}", construct=f"{q}: test of the restart tag: {short(c, 50)}")
            else:
                ctx.ok(rid, c, f"{q}: the path's origin tag is compared with {sorted(consts)} - not with the restart tag '{tag}'")
    return n_tests


def path_number_truthiness(ctx, rid, rels, what=""):
    """Path numbers start at 0 (the initial [0-] path): a path number is compared with None or
    with other numbers, never tested by truthiness (`if not p.path_number`, `pn or d`)."""
    from ..flow import deref, flow_of
    n_uses = 0
    for m, q, f in ctx.tree.all_funcs(rels):
        fl = None

        def is_pn(t):
            nonlocal fl
            if isinstance(t, ast.Attribute) and t.attr == "path_number":
                return ast.unparse(t)
            if isinstance(t, ast.Subscript) and isinstance(t.slice, ast.Constant) and t.slice.value in ("pn_old", "path_number"):
                return ast.unparse(t)
            if isinstance(t, ast.Name):
                if fl is None:
                    fl = flow_of(f)
                try:
                    e2, _ = deref(fl, t, fl.cfg.node_of(t))
                except Exception:
                    return None
                if e2 is not t and isinstance(e2, ast.Attribute) and e2.attr == "path_number":
                    return t.id
            return None

        uses = [x for x in walk_local(f) if isinstance(x, ast.Attribute) and x.attr == "path_number" and isinstance(x.ctx, ast.Load)]
        if not uses:
            continue
        n_uses += len(uses)
        hit = False
        for x in walk_local(f):
            tests = []
            if isinstance(x, ast.BoolOp):
                tests += x.values if isinstance(x.op, ast.And) or len(x.values) < 2 else x.values
            if isinstance(x, (ast.If, ast.While, ast.IfExp, ast.Assert)):
                tests.append(x.test)
            if isinstance(x, ast.UnaryOp) and isinstance(x.op, ast.Not):
                tests.append(x.operand)
            for t in tests:
                nm = is_pn(t)
                if nm:
                    hit = True
                    ctx.bad(rid, x, f"{q}: the path number `{nm}` is tested by truthiness in `{short(x, 50)}`: path number 0 (the initial [0-] path) is treated like 'no number yet'{what}",
                            construct=f"truthiness of path number {nm} in {short(x, 50)}")
        if not hit:
            ctx.ok(rid, f, f"{q}: path numbers are compared (with None / other numbers), never tested by truthiness")
    return n_uses


def stale_iteration_value(ctx, rid, rels, func_filter=None, what=""):
    """Per-iteration data is not taken from an earlier iteration. A local that is defined only
    inside a `for` loop (no definition before the loop, no accumulation `v = f(v)` / `v += ...`)
    is per-iteration data; a read of it inside the loop must not be reachable from one of its
    definitions *around the loop head* - i.e. on some path the current iteration defines nothing
    and the read sees what an earlier iteration left behind."""
    from ..cfg import cfg_of
    from ..flow import flow_of
    n = 0
    for m, q, f in ctx.tree.all_funcs(rels):
        if func_filter is not None and not func_filter(q):
            continue
        loops = [L for L in walk_local(f) if isinstance(L, ast.For)]
        if not loops:
            continue
        fl = flow_of(f)
        cfg = fl.cfg
        params = {a.arg for a in f.args.posonlyargs + f.args.args + f.args.kwonlyargs}
        for L in loops:
            inside = {id(x) for x in ast.walk(L)}
            tvars = {x.id for x in ast.walk(L.target) if isinstance(x, ast.Name)}
            head = cfg.node_of(L)
            cands = {}
            def innermost_loop(node):
                n_ = getattr(node, "_parent", None)
                while n_ is not None and n_ is not f:
                    if isinstance(n_, (ast.For, ast.While)):
                        return n_
                    n_ = getattr(n_, "_parent", None)
                return None

            for d in fl.defs:
                if d.stmt is None or id(d.stmt) not in inside or "." in d.path or "[" in d.path:
                    continue
                if innermost_loop(d.stmt) is not L:
                    continue  # defined in a nested loop: whether it was defined is a matter of that loop's outcome (correlated guards)
                cands.setdefault(d.path, []).append(d)
            for v, defs in sorted(cands.items()):
                if v in tvars or v in params or v == "_":
                    continue
                alld = [d for d in fl.defs if d.path == v]
                if any(d.stmt is None or id(d.stmt) not in inside for d in alld):
                    continue  # also defined outside the loop: carried state, not per-iteration data
                if any(d.kind == "aug" for d in alld):
                    continue
                if any(d.value is not None and isinstance(d.value, ast.AST) and any(isinstance(x, ast.Name) and x.id == v for x in ast.walk(d.value)) for d in alld):
                    continue  # v = f(v): accumulation
                # nested loops that define v as their own target are handled at that loop
                if any(isinstance(x, ast.For) and x is not L and v in {y.id for y in ast.walk(x.target) if isinstance(y, ast.Name)} for x in ast.walk(L)):
                    continue
                reads = [x for x in ast.walk(L) if isinstance(x, ast.Name) and x.id == v and isinstance(x.ctx, ast.Load)]
                if not reads:
                    continue
                n += 1
                dnodes = [d.at for d in defs if d.at is not None]
                bad = None
                for r in reads:
                    try:
                        rn = cfg.node_of(r)
                    except Exception:
                        continue
                    # can the read be reached from the loop head without passing a definition of v?
                    if cfg.reaches(head, rn, avoid=dnodes, labels_excluded=("exc",)) and rn.id != head.id:
                        # ... and is there an earlier-iteration definition that can flow around?
                        if any(cfg.reaches(dn, head, labels_excluded=("exc",)) for dn in dnodes):
                            bad = r
                            break
                if bad is None:
                    ctx.ok(rid, defs[0].stmt, f"{q}: `{v}` is (re)defined in every iteration before it is read")
                else:
                    st = bad
                    while st is not None and not isinstance(st, ast.stmt):
                        st = getattr(st, "_parent", None)
                    ctx.bad(rid, st if st is not None else bad, f"{q}: `{v}` is defined only on some paths of the loop over `{short(L.iter, 30)}` but read in `{short(st, 50)}` on all of them: when the current iteration does not define it, the read sees the value an earlier iteration left behind{what}", construct=f"{q}: stale `{v}` in {short(st, 50)}")
    return n


def commit_every_step(ctx, rid, what=""):
    """Every completed step is committed: each normal path through treat_output passes
    write_toml() (the restart file is refreshed at every step, whatever the output settings)."""
    from ..cfg import cfg_of
    from ..loader import AnalysisError
    from ..util import REPEX
    f = ctx.tree.func(REPEX, "REPEX_state.treat_output")
    cfg = cfg_of(f)
    commits = [c for c in walk_local(f) if isinstance(c, ast.Call) and isinstance(c.func, ast.Attribute) and c.func.attr == "write_toml"]
    if not commits:
        ctx.bad(rid, f, "treat_output never writes restart.toml" + what, construct="treat_output without write_toml")
        return
    cn = [cfg.node_of(c) for c in commits]
    if cfg.reaches(cfg.entry, cfg.exit, avoid=cn, labels_excluded=("exc",)):
        guards = sorted({short(e, 40) for c in cn for e, t, _ in cfg.guards(c)})
        ctx.bad(rid, commits[0], f"treat_output can complete a step without writing restart.toml (the commit is conditional on {guards}): path files and the data file then run ahead of the restart file, and a crash followed by a restart replays steps - rows are appended twice, path numbers reused, jobs re-issued from a stale step{what}", construct="treat_output: conditional write_toml")
    else:
        ctx.ok(rid, commits[0], "every normal path through treat_output writes restart.toml")


def positional_literal_kind(ctx, rid, rels, what=""):
    """A literal passed positionally lands on the parameter its kind belongs to. For calls of
    repository functions (all definitions of the name agree on the parameter list): a bool literal
    in a positional slot whose parameter has a default must meet a bool default; meeting `None` /
    a number while a *later* parameter has a bool default means the flag slipped one position
    (`f(a, b, False)` with `def f(a, b, step=None, append=True)` sets step, not append)."""
    tree = ctx.tree
    sigs = {}
    for m, q, f in tree.all_funcs():
        ps = f.args.posonlyargs + f.args.args
        is_method = "." in q and ps and ps[0].arg in ("self", "cls")
        names = [a.arg for a in (ps[1:] if is_method else ps)]
        defaults = [None] * (len(names) - len(f.args.defaults)) + list(f.args.defaults) if len(f.args.defaults) <= len(names) else None
        if defaults is None or f.args.vararg:
            sigs.setdefault(f.name, set()).add(None)
            continue
        sigs.setdefault(f.name, set()).add((tuple(names), tuple(ast.dump(d) if d is not None else "" for d in defaults), bool(is_method)))
    n = 0
    for m, q, f in tree.all_funcs(rels):
        for c in [x for x in walk_local(f) if isinstance(x, ast.Call)]:
            nm = c.func.attr if isinstance(c.func, ast.Attribute) else (c.func.id if isinstance(c.func, ast.Name) else None)
            ss = sigs.get(nm)
            if not ss or len(ss) != 1 or None in ss or nm.startswith("__"):
                continue
            names, dflts, is_method = next(iter(ss))
            if is_method and not isinstance(c.func, ast.Attribute):
                continue
            moved = getattr(c, "_kw_moved", False)
            for i, a in enumerate(c.args):
                if i >= len(names) or not dflts[i]:
                    continue
                if not (isinstance(a, ast.Constant) and isinstance(a.value, bool)):
                    continue
                if moved:
                    continue  # the loader moved a keyword argument into this slot: it was given by name
                n += 1
                d = dflts[i]
                is_bool_default = d in (ast.dump(ast.Constant(value=True)), ast.dump(ast.Constant(value=False)))
                later_bool = [names[j] for j in range(i + 1, len(names)) if dflts[j] in (ast.dump(ast.Constant(value=True)), ast.dump(ast.Constant(value=False)))]
                if is_bool_default:
                    ctx.ok(rid, c, f"{q}: the flag {a.value} is passed to the flag parameter `{names[i]}` of {nm}()")
                elif later_bool:
                    ctx.bad(rid, c, f"{q} passes the literal {a.value} positionally to {nm}(): it binds to `{names[i]}` (default not a flag) while the flag parameter `{later_bool[0]}` keeps its default{what}", construct=f"{q}: {short(c, 60)}")
                else:
                    ctx.ok(rid, c, f"{q}: literal {a.value} for `{names[i]}` of {nm}()", nontrivial=False)
    return n


_CASE_NORMALISERS = ("lower", "upper", "casefold")


def case_normalised_selectors(ctx, rid, rels=None, what=""):
    """A selector string that is normalised for one decision is normalised for all of them
    (contradiction rule). In a function that looks a value up after `.lower()` / `.upper()` /
    `.casefold()` (so any spelling of the name is accepted), every other string test of the same
    value - `==` / `in` against literals, `.startswith()` / `.endswith()`, use as a mapping key -
    goes through a normalisation too. A raw test beside a normalised lookup means one spelling
    selects the class while the raw test fails: the two decisions disagree about what was chosen."""
    tree = ctx.tree
    n = 0
    for m, q, f in tree.all_funcs(rels):
        bases = {}
        for c in walk_local(f):
            if isinstance(c, ast.Call) and isinstance(c.func, ast.Attribute) and c.func.attr in _CASE_NORMALISERS and not c.args:
                b = c.func.value
                if isinstance(b, ast.Constant):
                    continue
                bases.setdefault(ast.unparse(b), []).append(c)
        if not bases:
            continue
        # a name rebound to its own normalisation is normalised from there on
        for st in walk_local(f):
            if isinstance(st, ast.Assign) and len(st.targets) == 1 and isinstance(st.targets[0], ast.Name):
                v = st.value
                if isinstance(v, ast.Call) and isinstance(v.func, ast.Attribute) and v.func.attr in _CASE_NORMALISERS and ast.unparse(v.func.value) == st.targets[0].id:
                    bases.pop(st.targets[0].id, None)
        for key, uses in bases.items():
            n += 1
            receivers = {id(c.func.value) for c in uses}
            raw = []
            for x in walk_local(f):
                if isinstance(x, ast.Compare) and len(x.ops) == 1 and isinstance(x.ops[0], (ast.Eq, ast.NotEq, ast.In, ast.NotIn)):
                    l, r = x.left, x.comparators[0]
                    for side, other in ((l, r), (r, l)):
                        if id(side) in receivers or ast.unparse(side) != key:
                            continue
                        if side is r and isinstance(x.ops[0], (ast.In, ast.NotIn)):
                            continue  # `lit in value`: a substring test of the raw text
                        lits = [other] if isinstance(other, ast.Constant) else (list(other.elts) if isinstance(other, (ast.List, ast.Tuple, ast.Set)) else None)
                        if lits is None and isinstance(x.ops[0], (ast.In, ast.NotIn)) and isinstance(other, (ast.Name, ast.Attribute)):
                            raw.append(x)  # membership of the raw text in a table
                        elif lits and all(isinstance(e, ast.Constant) and isinstance(e.value, str) for e in lits):
                            raw.append(x)
                elif isinstance(x, ast.Call) and isinstance(x.func, ast.Attribute) and x.func.attr in ("startswith", "endswith") and id(x.func.value) not in receivers and ast.unparse(x.func.value) == key:
                    raw.append(x)
                elif isinstance(x, ast.Subscript) and isinstance(x.ctx, ast.Load) and ast.unparse(x.slice) == key and id(x.slice) not in receivers and isinstance(x.value, (ast.Name, ast.Attribute)) and ast.unparse(x.value).isupper():
                    raw.append(x)  # TABLE[value]
            if raw:
                x = raw[0]
                ctx.bad(rid, x, f"{q} normalises `{key}` with .{uses[0].func.attr}() for `{short(enclosing_stmt(uses[0]), 50)}` but tests the raw text in `{short(x, 60)}`: a spelling the lookup accepts (e.g. another capitalisation) fails this test, so the two decisions disagree about which class was selected{what}", construct=f"{q}: raw test of {key}: {short(x, 50)}")
            else:
                ctx.ok(rid, uses[0], f"{q}: every string test of `{key}` goes through the same case normalisation ({len(uses)} use(s))")
    return n


def per_ensemble_engine_table(ctx, rid, what=""):
    """Each picked ensemble gets the engines of its own entry of `simulation.ensemble_engines`.
    In prep_md_items the store `picked[e]["eng_idx"] = {...}` sits in a loop over the job's
    ensembles; the engine names it maps are iterated from `ensemble_engines[<index of e>]` with
    the same index expression that collects the names handed to assign_engines - not from the
    job-wide list (a zero swap would then run both halves with the first listed engine, i.e. the
    [0-] engine also for [0+])."""
    from ..flow import deref, flow_of
    from ..loader import AnalysisError
    from ..util import REPEX
    f = ctx.tree.func(REPEX, "REPEX_state.prep_md_items")
    fl = flow_of(f)
    n = 0
    for st in walk_local(f):
        if not (isinstance(st, ast.Assign) and len(st.targets) == 1 and isinstance(st.targets[0], ast.Subscript)):
            continue
        t = st.targets[0]
        if not (isinstance(t.slice, ast.Constant) and t.slice.value == "eng_idx"):
            continue
        n += 1
        loops = [p for p in _loops_of(st) if isinstance(p, ast.For) and isinstance(p.target, ast.Name)]
        lv = next((p.target.id for p in loops if any(isinstance(x, ast.Name) and x.id == p.target.id for x in ast.walk(t))), None)
        if lv is None:
            ctx.bad(rid, st, "the engine table of a picked ensemble is not stored per ensemble of the job (no loop variable in the target)" + what, construct="eng_idx store outside the ensemble loop")
            continue
        v = st.value
        its = []
        if isinstance(v, ast.DictComp) and len(v.generators) == 1:
            its = [v.generators[0].iter]
        elif isinstance(v, ast.Call) and v.args and isinstance(v.args[0], (ast.GeneratorExp, ast.ListComp)) and len(v.args[0].generators) == 1:
            its = [v.args[0].generators[0].iter]
        if not its:
            raise AnalysisError(f"{rid}: the eng_idx entry is built by `{short(v, 50)}`, not by a comprehension over engine names (cannot decide)")
        it, _ = deref(fl, its[0], fl.cfg.node_of(st)) if isinstance(its[0], ast.Name) else (its[0], None)
        ok = isinstance(it, ast.Subscript) and any(isinstance(x, ast.Name) and x.id == lv for x in ast.walk(it.slice))
        if ok:
            base, _b = deref(fl, it.value, fl.cfg.node_of(st)) if isinstance(it.value, ast.Name) else (it.value, None)
            ok = "ensemble_engines" in ast.unparse(base)
        if ok:
            # the same index expression as where the names for assign_engines are collected
            coll = [a for a in walk_local(f) if isinstance(a, ast.AugAssign) and isinstance(a.value, ast.Subscript) and ast.unparse(a.value.value) == ast.unparse(it.value)]
            if coll and any(ast.unparse(a.value.slice).replace(next((p.target.id for p in _loops_of(a) if isinstance(p, ast.For) and isinstance(p.target, ast.Name)), lv), lv) != ast.unparse(it.slice) for a in coll):
                ctx.bad(rid, st, f"the engine table of ensemble `{lv}` is built from `{short(it, 40)}` while the engines booked for the job were collected from another entry of ensemble_engines: an engine that was not booked is used{what}", construct="eng_idx: other index than the booking")
            else:
                ctx.ok(rid, st, f"picked[{lv}]['eng_idx'] maps the engines of ensemble_engines[{ast.unparse(it.slice)}] - the ensemble's own entry")
        else:
            ctx.bad(rid, st, f"the engine table of a picked ensemble is built from `{short(it, 40)}`, not from that ensemble's own entry of simulation.ensemble_engines: every ensemble of the job gets the job-wide engine list, and a move takes the first listed engine - in a [0-]<->[0+] swap both halves then run, and are weighted, with the [0-] engine{what}", construct=f"eng_idx built from {short(it, 40)}")
    if n == 0:
        raise AnalysisError(f"{rid}: no store of the per-ensemble engine table (eng_idx) in prep_md_items")
    return n


def _loops_of(node):
    out = []
    p = getattr(node, "_parent", None)
    while p is not None and not isinstance(p, (ast.FunctionDef, ast.AsyncFunctionDef)):
        if isinstance(p, (ast.For, ast.While)):
            out.append(p)
        p = getattr(p, "_parent", None)
    return out


def hoisted_stale_value(ctx, rid, rel, qualname, what=""):
    """A value computed from a container is not hoisted above a loop that changes the container.
    For every name read inside a loop of the function whose definitions all lie outside that loop:
    if the defining expression reads a variable that the loop body mutates in place (subscript
    store into it or into one of its elements, `.append` / `.sort` ..., augmented assignment),
    the value read in later iterations is the one of the state before the loop."""
    from ..flow import flow_of
    f = ctx.tree.func(rel, qualname)
    fl = flow_of(f)
    MUT = ("append", "extend", "insert", "pop", "remove", "clear", "sort", "reverse", "fill", "put", "update")
    n = 0
    for L in [x for x in walk_local(f) if isinstance(x, (ast.For, ast.While))]:
        inside = {id(x) for x in ast.walk(L)}
        mutated = {}
        for st in ast.walk(L):
            if isinstance(st, (ast.Assign, ast.AugAssign)):
                for t in (st.targets if isinstance(st, ast.Assign) else [st.target]):
                    b = t
                    while isinstance(b, ast.Subscript):
                        b = b.value
                    if isinstance(t, ast.Subscript) and isinstance(b, ast.Name):
                        mutated.setdefault(b.id, st)
            if isinstance(st, ast.Call) and isinstance(st.func, ast.Attribute) and st.func.attr in MUT and isinstance(st.func.value, ast.Name):
                mutated.setdefault(st.func.value.id, st)
        if not mutated:
            continue
        seen = set()
        for x in ast.walk(L):
            if not (isinstance(x, ast.Name) and isinstance(x.ctx, ast.Load)) or x.id in seen or x.id in mutated:
                continue
            st_ = enclosing_stmt(x)
            try:
                defs = [d for d, sfx in fl.rd(x.id, fl.cfg.node_of(st_ if not isinstance(st_, (ast.For, ast.While, ast.If)) else x)) if not sfx]
            except Exception:
                continue
            if not defs or any(d.stmt is None or id(d.stmt) in inside for d in defs) or any(d.kind != "assign" or d.value is None for d in defs):
                continue
            seen.add(x.id)
            for d in defs:
                reads = {y.id for y in ast.walk(d.value) if isinstance(y, ast.Name) and isinstance(y.ctx, ast.Load)}
                hit = sorted(reads & set(mutated))
                # only values *derived by indexing / calling* are stale; a plain alias of the container follows its changes
                if hit and not (isinstance(d.value, ast.Name)):
                    n += 1
                    ctx.bad(rid, d.stmt, f"{qualname}: `{short(d.stmt, 50)}` is computed once before the loop although `{hit[0]}` is changed inside it (`{short(mutated[hit[0]], 50)}`): from the second iteration on `{x.id}` describes the arrangement before the loop, not the current one{what}", construct=f"{qualname}: {x.id} hoisted above a loop that changes {hit[0]}")
                    break
        if not n:
            ctx.ok(rid, L, f"{qualname}: no value derived from a container the loop changes is computed before the loop ({sorted(mutated)} change inside)")
    return n
