"""Rule implementations used by more than one property."""

from __future__ import annotations

import ast

from ..flow import flow_of, path_of
from ..loader import dotted, last_name, short, walk_local

FRESH_ALLOC = {"zeros", "empty", "ones", "array", "copy", "zeros_like", "empty_like", "full", "asarray", "list", "dict"}


def _is_fresh(v):
    if isinstance(v, (ast.List, ast.Dict, ast.ListComp, ast.Tuple)):
        return True
    if isinstance(v, ast.Call):
        return last_name(v) in FRESH_ALLOC
    return False


def handed_out_buffers(ctx, rid, f, what):
    """A buffer appended to a returned list must not be written again.

    For every `L.append(B)` where L is (part of) the function's return value
    and B is a name: every path from the append to a later write into B
    (item/slice store, augmented item store, fill) passes a rebinding of B to
    a fresh allocation.  Otherwise all frames returned from one call share
    one array and show the values of the last (possibly partial) frame.
    """
    fl = flow_of(f)
    cfg = fl.cfg
    returned = set()
    for r in [n for n in walk_local(f) if isinstance(n, ast.Return) and n.value is not None]:
        elts = r.value.elts if isinstance(r.value, ast.Tuple) else [r.value]
        for e in elts:
            if isinstance(e, ast.Name):
                returned.add(e.id)
    n = 0
    for c in [c for c in walk_local(f) if isinstance(c, ast.Call) and isinstance(c.func, ast.Attribute) and c.func.attr == "append"]:
        L = path_of(c.func.value)
        if L not in returned or not c.args:
            continue
        B = c.args[0]
        if not isinstance(B, ast.Name):
            if _is_fresh(B):
                n += 1
                ctx.ok(rid, c, f"{f.name}: {what}: a freshly built object is appended to {L}")
            continue
        a = cfg.node_of(c)
        rebinds = [d.at for d in fl.defs if d.path == B.id and d.kind == "assign" and d.value is not None and _is_fresh(d.value)]
        writes = []
        for s in walk_local(f):
            if isinstance(s, (ast.Assign, ast.AugAssign)):
                tgts = s.targets if isinstance(s, ast.Assign) else [s.target]
                for t in tgts:
                    if isinstance(t, ast.Subscript) and path_of(t.value) == B.id:
                        writes.append(s)
            if isinstance(s, ast.Call) and isinstance(s.func, ast.Attribute) and s.func.attr in ("fill", "sort", "put", "resize", "append", "extend", "clear", "insert", "pop", "remove", "update", "reverse") and path_of(s.func.value) == B.id and s is not c:
                writes.append(s)
        n += 1
        r = cfg.reachable(a, avoid=rebinds)
        hit = [w for w in writes if cfg.node_of(w).id in r]
        if hit:
            ctx.bad(rid, c,
                    f"{f.name}: the array {B.id!r} is appended to the returned list {L!r} and written again ({short(hit[0], 50)}) without being re-allocated in between: "
                    "all frames returned from one call share one buffer and show the values of the last (possibly incomplete) frame",
                    construct=f"{L}.append({B.id}) ... {short(hit[0], 50)} without fresh allocation")
        else:
            ctx.ok(rid, c, f"{f.name}: {what}: {B.id!r} is re-allocated after being appended to {L!r}, before any further write")
    return n
