"""C12 - every engine returns the trajectory it actually ran.

Sibling cross-check of the per-frame propagation protocol on the CFG of every
EngineBase._propagate_from implementation, plus process life-cycle rules for
the engines that drive an external program.
"""

from __future__ import annotations

import ast

from ..cfg import cfg_of
from ..flow import deref, flow_of, path_of
from ..loader import FUNC, AnalysisError, dotted, last_name, loc, short, walk_local, enclosing_stmt
from ..util import (AMS, ASE, CP2K, ENGBASE, ENGPARTS, GROMACS, LAMMPS, TURTLE, class_of,
                    is_self_attr, kwarg, last_key, loops_of)
from ..variants import B, K

EXPLANATION = (
    "Sibling cross-check over the CFG of every EngineBase._propagate_from "
    "implementation in the repository (GROMACS, CP2K, LAMMPS, ASE, TurtleMD "
    "armed; AMS parsed, informational): (R-12.1) every frame is appended "
    "through the shared stop rule add_to_path(path, point, left, right) with "
    "left/right from ens_set['interfaces'], the returned stop flag is tested "
    "before any further append and its true edge ends the frame loops, the "
    "returned success is the one from add_to_path; (R-12.2) the frame "
    "reference is (trajectory file, frame counter) with a counter that "
    "advances exactly once per appended frame and vel_rev = reverse; "
    "(R-12.3) the order parameter is computed from the same iteration's "
    "arrays and queued frame lists are consumed from the same end; "
    "(R-12.4) external process life cycle (killed and waited on stop, return "
    "code raised, terminated on exception); (R-12.5) first frame before "
    "first integrator step; (R-12.6) velocity direction applied exactly once; "
    "(R-12.7) every sleeping poll loop observes the process."
)
NOT_DECIDED = (
    "that the external program's k-th frame is the k-th MD step; that backward "
    "propagation retraces forward (dynamics); numeric equality of stored and "
    "recomputed order parameters; plug-in engines (outside the repository)"
)
ASSUMPTIONS = [
    "turtlemd.MDSimulation.run() yields the initial state before integrating (library semantics)",
    "subprocess.Popen.wait / os.killpg behave as documented",
    "AMS engine is parsed and compared but not armed: the property's engine list does not include it",
]

ENGINE_FILES = [GROMACS, CP2K, LAMMPS, ASE, TURTLE]


def engines(tree):
    out = []
    for m, name, c in tree.subclasses("EngineBase"):
        for st in c.body:
            if isinstance(st, FUNC) and st.name == "_propagate_from":
                out.append((m, name, c, st))
    return out


def _add_calls(f):
    return [c for c in walk_local(f) if isinstance(c, ast.Call) and last_name(c) == "add_to_path"]


def _unpack_names(call):
    st = enclosing_stmt(call)
    if isinstance(st, ast.Assign) and st.value is call and len(st.targets) == 1 and isinstance(st.targets[0], ast.Tuple):
        return [e.id if isinstance(e, ast.Name) else None for e in st.targets[0].elts], st
    return None, st


def _const_eval_compare(test, env):
    """Evaluate a compare/boolop with names bound in env; None if unknown."""
    if isinstance(test, ast.BoolOp):
        vals = [_const_eval_compare(v, env) for v in test.values]
        if isinstance(test.op, ast.Or):
            if any(v is True for v in vals):
                return True
            if all(v is False for v in vals):
                return False
            return None
        if any(v is False for v in vals):
            return False
        if all(v is True for v in vals):
            return True
        return None
    if isinstance(test, ast.UnaryOp) and isinstance(test.op, ast.Not):
        v = _const_eval_compare(test.operand, env)
        return None if v is None else (not v)
    if isinstance(test, ast.Compare) and len(test.ops) == 1:
        def val(e):
            if isinstance(e, ast.Constant):
                return e.value
            if isinstance(e, ast.Name) and e.id in env:
                return env[e.id]
            key = ast.unparse(e)
            if key in env:
                return env[key]
            raise KeyError
        try:
            a, b = val(test.left), val(test.comparators[0])
        except KeyError:
            return None
        op = test.ops[0]
        try:
            if isinstance(op, ast.LtE):
                return a <= b
            if isinstance(op, ast.Lt):
                return a < b
            if isinstance(op, ast.GtE):
                return a >= b
            if isinstance(op, ast.Gt):
                return a > b
            if isinstance(op, ast.Eq):
                return a == b
            if isinstance(op, ast.NotEq):
                return a != b
            if isinstance(op, ast.Is):
                return a is b
            if isinstance(op, ast.IsNot):
                return a is not b
        except TypeError:
            return None
    return None


def r121(ctx, m, cname, f):
    rid = "R-12.1"
    fl = flow_of(f)
    cfg = fl.cfg
    path_param = "path"
    adds = _add_calls(f)
    if not adds:
        ctx.bad(rid, f, f"{cname}._propagate_from never calls add_to_path: frames bypass the shared stop rule")
        return None
    # (a) no direct append to the output path
    for n in walk_local(f):
        if isinstance(n, ast.Call) and isinstance(n.func, ast.Attribute) and n.func.attr in ("append", "extend", "insert"):
            p = path_of(n.func.value)
            if p in (path_param, path_param + ".phasepoints"):
                ctx.bad(rid, n, "frame appended to the output path directly, bypassing add_to_path (no stop/length check)")
        if isinstance(n, ast.AugAssign) and path_of(n.target) in (path_param, path_param + ".phasepoints"):
            ctx.bad(rid, n, "output path extended directly, bypassing add_to_path")
    add_nodes = [cfg.node_of(c) for c in adds]
    info = None
    for call in adds:
        at = cfg.node_of(call)
        # (b) arguments
        if len(call.args) < 4:
            ctx.bad(rid, call, "add_to_path must receive (path, phase_point, left, right)")
            continue
        if path_of(call.args[0]) != path_param:
            ctx.bad(rid, call, "add_to_path does not append to the output path parameter")
        okb = True
        for pos, idx, side in ((2, 0, "left"), (3, 2, "right")):
            srcs = fl.sources(call.args[pos], at)
            good = False
            for kind, node, sn, extra in srcs:
                if kind == "unpack" and node.index == (idx,):
                    v = node.value
                    vs = fl.sources(v, node.at)
                    for k2, n2, _, e2 in vs:
                        if (k2 == "expr" and last_key(n2) == "interfaces") or (k2 in ("param", "free") and e2.endswith("['interfaces']")):
                            good = True
                if kind.startswith("sub:") and extra in (f"[{idx}]", f"[{idx - 3}]") and getattr(node, "value", None) is not None and isinstance(node.value, ast.AST):
                    for k2, n2, _, e2 in fl.sources(node.value, node.at):
                        if (k2 == "expr" and last_key(n2) == "interfaces") or (k2 in ("param", "free") and e2.endswith("['interfaces']")):
                            good = True
                if kind == "expr" and isinstance(node, ast.Subscript):
                    # interfaces[0] / interfaces[2]
                    base_srcs = fl.sources(node.value, sn)
                    try:
                        iv = ast.literal_eval(node.slice)
                    except Exception:
                        iv = None
                    if iv in (idx, idx - 3):
                        for k2, n2, _, e2 in base_srcs:
                            if (k2 == "expr" and last_key(n2) == "interfaces") or (k2 in ("param", "free") and e2.endswith("['interfaces']")):
                                good = True
            if not good:
                okb = False
                ctx.bad(rid, call, f"the {side} interface handed to add_to_path does not come from ens_set['interfaces'][{idx}]",
                        construct=f"add_to_path(..., {side}={short(call.args[pos], 40)})")
        # (c) stop is tested before any further append and ends the loops
        names, st = _unpack_names(call)
        if not names or len(names) != 4 or names[2] is None:
            ctx.bad(rid, call, "the (status, success, stop, add) result of add_to_path is not unpacked: the stop flag is ignored")
            continue
        stop = names[2]
        succ = names[1]
        def mentions(n):
            return n.ast is not None and any(isinstance(x, ast.Name) and x.id == stop for x in ast.walk(n.ast))
        bfalse = [n for n in cfg.nodes if n.kind == "branch" and any(isinstance(e, ast.Name) and e.id == stop and not t for e, t in n.facts)]
        # every other branch of a test that reads the flag may be taken with stop == True
        bt = [n for n in cfg.nodes if n.kind == "branch" and mentions(n) and n not in bfalse]
        # only tests whose stop value is the one just returned
        def fresh(b):
            tn = [x for x in cfg.nodes if x.kind == "test" and x.ast is b.ast]
            if not tn:
                return False
            rds = fl.rd(stop, tn[0])
            return bool(rds) and all(d.stmt is st for d, _ in rds)
        bt = [b for b in bt if fresh(b)]
        bfalse = [b for b in bfalse if fresh(b)]
        if not bt:
            ctx.bad(rid, call, f"the stop flag {stop!r} returned by add_to_path is never tested: propagation does not stop at the first frame outside the interfaces")
            continue
        reach_wo = cfg.reachable(at, avoid=bfalse + bt)
        if any(a.id in reach_wo for a in add_nodes):
            ctx.bad(rid, call, "a further frame can be appended without the stop flag having been tested false")
            okb = False
        # true edge must leave the innermost frame loop
        inner = loops_of(call)
        if not inner:
            ctx.bad(rid, call, "add_to_path is not inside a frame loop")
            continue
        inner_loop = inner[0]
        for b in bt:
            body_nodes = {cfg.node_of(s).id for s in walk_local(inner_loop) if isinstance(s, ast.stmt) and s is not inner_loop and cfg.nodes_of(s)}
            head = cfg.node_of(inner_loop) if isinstance(inner_loop, (ast.For, ast.AsyncFor)) else cfg.node_of(inner_loop.test)
            r = cfg.reachable(b, avoid=[head])
            hit = [a for a in add_nodes if a.id in r]
            # reaching add again without passing the inner loop head = did not leave the loop
            if hit or head.id in {s for s, _ in cfg.succ[b.id]}:
                ctx.bad(rid, call, "the true edge of the stop test does not leave the frame loop")
                okb = False
            # outer loops: must not come back to add_to_path
            r_all = cfg.reachable(b)
            if any(a.id in r_all for a in add_nodes) and len(inner) > 1:
                ok_outer, why = _outer_loop_ends(cfg, fl, f, b, inner[1], head)
                if not ok_outer:
                    ctx.bad(rid, call, "after stop the enclosing polling loop can still append frames: " + why,
                            construct=f"outer loop: while {short(inner[1].test, 80)}" if isinstance(inner[1], ast.While) else None)
                    okb = False
            elif any(a.id in r_all for a in add_nodes):
                ctx.bad(rid, call, "after stop control can return to add_to_path")
                okb = False
        # (d) returned success
        for ret in [n for n in walk_local(f) if isinstance(n, ast.Return)]:
            v = ret.value
            first = v.elts[0] if isinstance(v, ast.Tuple) and v.elts else v
            if first is None:
                ctx.bad(rid, ret, "_propagate_from returns no success flag")
                continue
            rds = fl.rd(path_of(first) or "?", cfg.node_of(ret)) if path_of(first) else []
            if not rds:
                ctx.bad(rid, ret, "returned success flag is not the variable bound by add_to_path", construct="return " + short(first, 40))
                okb = False
                continue
            for d, _ in rds:
                from_add = d.kind == "unpack" and isinstance(d.stmt, ast.Assign) and any(d.stmt.value is c for c in adds) and d.index == (1,)
                init_false = d.kind == "assign" and isinstance(d.value, ast.Constant) and d.value.value is False
                if not (from_add or init_false):
                    ctx.bad(rid, d.stmt or ret, "the success flag returned by _propagate_from is overwritten after add_to_path (stale or constant success)",
                            construct=short(d.stmt, 80) if d.stmt is not None else None)
                    okb = False
        if okb:
            ctx.ok(rid, call, f"{cname}: frames only via add_to_path(left,right from interfaces); stop {stop!r} tested, true edge ends the loops; success from add_to_path")
        info = (call, st, stop, succ, inner, bt)
    return info


def _outer_loop_ends(cfg, fl, f, bt, outer, inner_head):
    """After the stop edge bt, does the enclosing while loop terminate?"""
    if not isinstance(outer, ast.While):
        return False, "enclosing loop is not a while loop with a decidable condition"
    # constants assigned on the stop path (dominated by bt)
    env = {}
    for d in fl.defs:
        if d.kind == "assign" and isinstance(d.value, ast.Constant) and cfg.dominates(bt, d.at) and "." not in d.path and "[" not in d.path:
            env[d.path] = d.value.value
    # process known dead: X.wait(...) dominated by bt, or (X.poll() is None) false
    dead = set()
    for n in walk_local(f):
        if isinstance(n, ast.Call) and isinstance(n.func, ast.Attribute) and n.func.attr == "wait":
            if cfg.dominates(bt, cfg.node_of(n)):
                guards = cfg.guards(cfg.node_of(n))
                rp = path_of(n.func.value)
                # the wait is under `X.poll() is None`; on the else branch the process had ended already
                for e, t, bn in guards:
                    if t and ast.unparse(e) == f"{rp}.poll() is None" and cfg.dominates(bt, bn):
                        dead.add(rp)
                if not any(cfg.dominates(bt, bn) for _, _, bn in guards if bn is not bt):
                    dead.add(rp)
    for rp in dead:
        env[f"{rp}.poll()"] = "<ended>"  # is None -> False
    test = outer.test

    def ev(t):
        if isinstance(t, ast.Compare) and len(t.ops) == 1 and isinstance(t.ops[0], (ast.Is, ast.IsNot)):
            k = ast.unparse(t.left)
            if k in env and isinstance(t.comparators[0], ast.Constant) and t.comparators[0].value is None:
                return isinstance(t.ops[0], ast.IsNot)
        if isinstance(t, ast.BoolOp):
            vals = [ev(v) for v in t.values]
            if isinstance(t.op, ast.Or):
                if any(v is True for v in vals):
                    return True
                return False if all(v is False for v in vals) else None
            if any(v is False for v in vals):
                return False
            return True if all(v is True for v in vals) else None
        return _const_eval_compare(t, env)

    v = ev(test)
    # the constants must not be changed between the stop edge and the loop test
    # except under a guard that is itself false with these constants
    tnode = cfg.node_of(test)
    for d in fl.defs:
        if d.path in env and not cfg.dominates(bt, d.at) and d.kind in ("assign", "aug"):
            # a redefinition reachable from bt before the test?
            if d.at.id in cfg.reachable(bt, avoid=[tnode]):
                gs = [g for g in cfg.guards(d.at)]
                if not any(_fact_false(e, t, env) for e, t, _ in gs):
                    return False, f"{d.path} may be changed at line {d.at.line} before the loop condition is re-evaluated"
    if v is False:
        return True, ""
    return False, (
        f"the loop condition `{short(test, 80)}` is not falsified on the stop path "
        f"(known there: {env})"
    )


def _fact_false(e, truth, env):
    v = _const_eval_compare(e, env)
    return v is not None and v != truth


def r122(ctx, m, cname, f, info):
    rid = "R-12.2"
    fl = flow_of(f)
    cfg = fl.cfg
    call, st, stop, succ, inner, stop_true = info
    at = cfg.node_of(call)
    # the snapshot dict feeding phase_point
    dicts = [n for n in walk_local(f) if isinstance(n, ast.Dict) and any(isinstance(k, ast.Constant) and k.value == "config" for k in n.keys)]
    if not dicts:
        ctx.bad(rid, call, "no snapshot with a 'config' frame reference is built for the appended phase point")
        return
    for dct in dicts:
        kv = {k.value: v for k, v in zip(dct.keys, dct.values) if isinstance(k, ast.Constant)}
        cfgv = kv["config"]
        ok = True
        if isinstance(cfgv, ast.Name):
            for k0, n0, _, _ in fl.sources(cfgv, cfg.node_of(dct)):
                if k0 == "expr" and isinstance(n0, ast.Tuple):
                    cfgv = n0
        if not (isinstance(cfgv, ast.Tuple) and len(cfgv.elts) == 2):
            ctx.bad(rid, dct, "frame reference is not a (file, index) pair")
            continue
        fexpr, kexpr = cfgv.elts
        dn = cfg.node_of(dct)
        # vel_rev
        vr = kv.get("vel_rev")
        if vr is None:
            ctx.bad(rid, dct, "snapshot has no 'vel_rev': stored frames lose their velocity direction")
            ok = False
        else:
            srcs = fl.sources(vr, dn)
            if not all(k == "param" and e == "reverse" for k, _, _, e in srcs):
                ctx.bad(rid, dct, "'vel_rev' of the snapshot is not the reverse parameter of this propagation", construct=f"'vel_rev': {short(vr, 40)}")
                ok = False
        # index
        kp = path_of(kexpr)
        if kp is None or "." in kp or "[" in kp:
            ctx.bad(rid, dct, "frame index of the reference is not a plain frame counter", construct=f"'config': {short(cfgv, 60)}")
            continue
        rds = fl.rd(kp, dn)
        kinds = {d.kind for d, _ in rds}
        add_node = at
        if kinds == {"iter"}:
            d = rds[0][0]
            it = d.value
            if not (isinstance(it, ast.Call) and dotted(it.func) == "enumerate" and d.index == (0,)):
                ctx.bad(rid, dct, "frame index is a loop variable that is not an enumerate() index", construct=f"'config': {short(cfgv, 60)}")
                ok = False
            else:
                # every iteration must append: loop head not reachable from its body entry without add
                head = d.at
                body_entry = [s for s, l in cfg.succ[head.id] if l == "T"]
                r = cfg.reachable(cfg.nodes[body_entry[0]], avoid=[add_node]) if body_entry else set()
                if head.id in r:
                    ctx.bad(rid, dct, "frame index is the enumerate() index of a loop that does not append a frame in every iteration (index and frame number drift apart)",
                            construct=f"'config': {short(cfgv, 60)}")
                    ok = False
        else:
            def is_self_inc(d):
                v = d.value
                return (d.kind == "assign" and isinstance(v, ast.BinOp) and isinstance(v.op, ast.Add)
                        and ((path_of(v.left) == d.path and isinstance(v.right, ast.Constant))
                             or (path_of(v.right) == d.path and isinstance(v.left, ast.Constant))))
            incs = [d for d, _ in rds if d.kind == "aug" or is_self_inc(d)]
            inits = [d for d, _ in rds if d.kind == "assign" and not is_self_inc(d)]
            others = [d for d, _ in rds if d.kind not in ("aug", "assign")]
            if others or not inits or not incs:
                ctx.bad(rid, dct, "frame index is not a counter initialised before the loop and incremented per frame", construct=f"'config': {short(cfgv, 60)}")
                ok = False
            else:
                for d in inits:
                    if not (isinstance(d.value, ast.Constant) and d.value.value == 0):
                        ctx.bad(rid, d.stmt, "frame counter does not start at 0", construct=short(d.stmt, 60))
                        ok = False
                for d in incs:
                    stx = d.stmt
                    if isinstance(stx, ast.Assign):
                        cst = stx.value.right if isinstance(stx.value.right, ast.Constant) else stx.value.left
                        good_inc = cst.value == 1
                    else:
                        good_inc = isinstance(stx.op, ast.Add) and isinstance(stx.value, ast.Constant) and stx.value.value == 1
                    if not good_inc:
                        ctx.bad(rid, stx, "frame counter is not advanced by exactly 1", construct=short(stx, 60))
                        ok = False
                inc_nodes = [d.at for d in incs]
                # at least once between two appends
                r = cfg.reachable(add_node, avoid=inc_nodes + stop_true)
                if add_node.id in r:
                    ctx.bad(rid, dct, "a second frame can be appended without the frame counter having advanced (two frames share one index)",
                            construct=f"'config': {short(cfgv, 60)}")
                    ok = False
                # at most once
                for inc in inc_nodes:
                    r2 = cfg.reachable(inc, avoid=[add_node])
                    if any(i2.id in r2 for i2 in inc_nodes):
                        ctx.bad(rid, incs[0].stmt, "the frame counter can advance twice between two appended frames (indices skip a frame)")
                        ok = False
                # the counter used in the reference is the value *before* this frame's increment
                for inc in inc_nodes:
                    if cfg.dominates(inc, dn) and inc.id in cfg.reachable(add_node) and not cfg.dominates(add_node, inc):
                        pass
                    # increment between snapshot construction and add_to_path = off by one
                    if inc.id in cfg.reachable(dn, avoid=[add_node]) and cfg.reaches(inc, add_node, avoid=[dn]):
                        if cfg.dominates(dn, inc) and cfg.dominates(inc, add_node):
                            ctx.bad(rid, incs[0].stmt, "frame counter advanced between building the reference and appending the frame")
                            ok = False
        if isinstance(kexpr, ast.BinOp):
            ok = False
        # file: the same name must feed the trajectory writer/reader of this function
        fp = path_of(fexpr)
        feeds = False
        for n in walk_local(f):
            if isinstance(n, ast.Call) and last_name(n) in ("write_xyz_trajectory", "Trajectory", "ReadAndProcessOnTheFly", "GromacsRunner", "write_lammpstrj"):
                cand = list(n.args) + [k.value for k in n.keywords]
                if last_name(n) == "GromacsRunner":
                    cand = [kwarg(n, "trr_file", 1)]
                else:
                    cand = [kwarg(n, "filename", 0) or kwarg(n, "outfile", 0)] if n.args or n.keywords else []
                for a in [c for c in cand if c is not None]:
                    if path_of(a) == fp or (isinstance(a, ast.Tuple) and any(path_of(x) == fp for x in a.elts)):
                        feeds = True
        if fp is None or not feeds:
            ctx.bad(rid, dct, "the file of the frame reference is not the trajectory file this propagation writes/reads", construct=f"'config': {short(cfgv, 60)}")
            ok = False
        # the snapshot must be what is appended
        if ok:
            ctx.ok(rid, dct, f"{cname}: reference ({short(fexpr, 20)}, {kp}) with per-frame counter; vel_rev = reverse")


def r123(ctx, m, cname, f, info):
    rid = "R-12.3"
    fl = flow_of(f)
    cfg = fl.cfg
    call, st, stop, succ, inner, stop_true = info
    inner_loop = inner[0]
    # order computation inside the frame loop
    ocalls = [c for c in walk_local(inner_loop) if isinstance(c, ast.Call) and last_name(c) == "calculate_order"]
    if not ocalls:
        ctx.bad(rid, call, "no calculate_order call in the frame loop: the stored order parameter is not computed per frame")
        return
    for oc in ocalls:
        ok = True
        at = cfg.node_of(oc)
        for kw in ("xyz", "vel"):
            v = kwarg(oc, kw, {"xyz": 1, "vel": 2}[kw])  # calculate_order(system, xyz, vel, box)
            if v is None:
                continue
            for nm in [n for n in ast.walk(v) if isinstance(n, ast.Name)]:
                par = getattr(nm, "_parent", None)
                plain = par is oc or isinstance(par, ast.keyword)
                rds = fl.rd(nm.id, at)
                if not rds:
                    continue
                outside = [d for d, _ in rds if d.kind != "param" and not _inside(d, inner_loop)]
                if plain and outside:
                    # an array allocated before the loop and refreshed in place in every iteration
                    # (`pos[:, :dim] = <this step's positions>` dominating the call) holds this frame's data
                    refreshed = False
                    for s_ in ast.walk(inner_loop):
                        if isinstance(s_, ast.Assign) and any(isinstance(t_, ast.Subscript) and isinstance(t_.value, ast.Name) and t_.value.id == nm.id for t_ in s_.targets) and not isinstance(s_.value, ast.Constant):
                            if any(cfg.dominates(sn_, at) for sn_ in cfg.nodes_of(s_)):
                                refreshed = True
                    if refreshed:
                        continue
                    ctx.bad(rid, oc, f"{kw}= of calculate_order may hold data defined outside this loop iteration (line {outside[0].at.line}): not this frame's own data",
                            construct=f"calculate_order(..., {kw}={short(v, 40)})")
                    ok = False
        if ok:
            ctx.ok(rid, oc, f"{cname}: order computed from arrays defined in the same loop iteration")
    # queues: every pop in the frame loop takes the same end
    pops = [c for c in walk_local(inner_loop) if isinstance(c, ast.Call) and isinstance(c.func, ast.Attribute) and c.func.attr in ("pop", "popleft")]
    if pops:
        ends = {}
        for p in pops:
            if p.func.attr == "popleft":
                end = "front"
            elif not p.args:
                end = "back"
            else:
                try:
                    iv = ast.literal_eval(p.args[0])
                except Exception:
                    iv = None
                end = "front" if iv == 0 else ("back" if iv == -1 else f"index {short(p.args[0], 20)}")
            ends[p] = end
        wrong = [p for p, e in ends.items() if e != "front"]
        for p in wrong:
            ctx.bad(rid, p, f"frames are queued in arrival order, so every queue must be consumed first-in-first-out; {short(p, 40)} takes the {ends[p]}: "
                    "when more than one frame is ready per poll, this frame is paired with another frame's data")
        if not wrong:
            ctx.ok(rid, pops[0], f"{cname}: {len(pops)} parallel frame queue(s) all consumed from the front (FIFO)")
        # loop bound must not exceed the shortest queue
        if isinstance(inner_loop, ast.For):
            it = inner_loop.iter
            qnames = {path_of(p.func.value) for p in pops}
            # the bound may be held in a local:  frames_ready = min(len(a), len(b)); for _ in range(frames_ready)
            from ..flow import deref as _deref
            it_exprs = [it]
            for nm_ in [x for x in ast.walk(it) if isinstance(x, ast.Name)]:
                e2_, _ = _deref(fl, nm_, cfg.node_of(inner_loop))
                if e2_ is not nm_:
                    it_exprs.append(e2_)
            bound_names = {path_of(a) for it_ in it_exprs for c in ast.walk(it_) if isinstance(c, ast.Call) and dotted(c.func) == "len" for a in c.args}
            if len(qnames) > 1 and not qnames <= bound_names:
                # allowed when all queues are extended from one reader result in lock step
                ext = {}
                for d in fl.defs:
                    if d.kind == "aug" and d.path in qnames:
                        ext.setdefault(d.path, []).append(d)
                srcs = set()
                for q, ds in ext.items():
                    for d in ds:
                        v = d.value.value
                        srcs.add(path_of(v.value) if isinstance(v, ast.Subscript) else ast.unparse(v))
                if len(srcs) != 1:
                    ctx.bad(rid, inner_loop, "frame loop bound ignores one of the parallel queues although they are filled by different readers",
                            construct=f"for ... in {short(it, 60)}")
                else:
                    ctx.ok(rid, inner_loop, f"{cname}: queues {sorted(qnames)} are filled in lock step from one reader result ({srcs.pop()})")
            elif len(qnames) > 1:
                ctx.ok(rid, inner_loop, f"{cname}: loop bound covers every queue: {short(it, 60)}")


def _inside(d, loop):
    n = d.stmt
    while n is not None:
        if n is loop:
            return True
        n = getattr(n, "_parent", None)
    return False


def _rc_atom_class(cmp_node, is_rc):
    """Abstractly evaluate a comparison on a return code over {negative, zero, positive}.
    Returns None when it is not a comparison of the return code with constants, 'none-test'
    for `is None` / `is not None`, else the triple of truth values."""
    if not isinstance(cmp_node, ast.Compare) or len(cmp_node.ops) != 1:
        return None
    l, r = cmp_node.left, cmp_node.comparators[0]
    if is_rc(l) and not is_rc(r):
        other, flip = r, False
    elif is_rc(r) and not is_rc(l):
        other, flip = l, True
    else:
        return None
    try:
        k = ast.literal_eval(other)
    except Exception:
        return None
    op = cmp_node.ops[0]
    if k is None:
        return "none-test"
    out = []
    for v in (-9, 0, 1, 137):
        a, b = (k, v) if flip else (v, k)
        try:
            if isinstance(op, ast.Eq): t = a == b
            elif isinstance(op, ast.NotEq): t = a != b
            elif isinstance(op, ast.Lt): t = a < b
            elif isinstance(op, ast.LtE): t = a <= b
            elif isinstance(op, ast.Gt): t = a > b
            elif isinstance(op, ast.GtE): t = a >= b
            elif isinstance(op, ast.In): t = a in b
            elif isinstance(op, ast.NotIn): t = a not in b
            elif isinstance(op, ast.Is): t = a is b
            elif isinstance(op, ast.IsNot): t = a is not b
            else: return None
        except Exception:
            return None
        out.append(bool(t))
    return tuple(out)


def r124_rc_tests(ctx):
    """Every comparison of an external program's return code distinguishes exactly zero from
    non-zero (death by signal gives a negative code, a failure a positive one)."""
    rid = "R-12.4"
    n_atoms = 0
    for rel in (LAMMPS, CP2K, GROMACS, ENGBASE):
        for m, q, f in ctx.tree.all_funcs([rel]):
            fl = None
            for c in walk_local(f):
                if not isinstance(c, ast.Compare):
                    continue
                if fl is None:
                    fl = flow_of(f)

                def is_rc(e, c=c):
                    p = path_of(e) if isinstance(e, (ast.Name, ast.Attribute)) else None
                    if p is None:
                        if isinstance(e, ast.Call) and isinstance(e.func, ast.Attribute) and e.func.attr in ("poll", "wait"):
                            return True
                        return False
                    if p.endswith(".returncode"):
                        return True
                    if "." in p:
                        return False
                    try:
                        at = fl.cfg.node_of(c)
                    except Exception:
                        return False
                    ds = [d for d, _ in fl.rd(p, at)]
                    vals = [d.value for d in ds if getattr(d, "value", None) is not None and isinstance(d.value, ast.AST)]
                    return any(
                        (isinstance(v, ast.Attribute) and v.attr == "returncode")
                        or (isinstance(v, ast.Call) and isinstance(v.func, ast.Attribute) and v.func.attr in ("poll", "wait"))
                        for v in vals
                    )

                cls_ = _rc_atom_class(c, is_rc)
                if cls_ is None:
                    continue
                n_atoms += 1
                if cls_ == "none-test":
                    ctx.ok(rid, c, f"{q}: `{short(c, 40)}` tests whether the program has finished", nontrivial=False)
                    continue
                neg, zero, pos1, pos2 = cls_
                if neg == pos1 == pos2 and neg != zero:
                    ctx.ok(rid, c, f"{q}: `{short(c, 40)}` separates exactly zero from every non-zero return code")
                else:
                    ctx.bad(rid, c, "a test on the external program's return code does not separate zero from every non-zero value "
                            f"(truth on negative/zero/positive: {neg}/{zero}/{pos1}): a death by signal (negative code) or a failure exit is treated like success and a truncated path is returned instead of raising",
                            construct="return-code test " + short(c, 50))
    if n_atoms < 6:
        raise AnalysisError(f"R-12.4: only {n_atoms} comparisons of a return code found (expected >= 6)")


def r124(ctx):
    rid = "R-12.4"
    tree = ctx.tree
    for rel in (LAMMPS, CP2K, GROMACS, ENGBASE):
        for m, q, f in tree.all_funcs([rel]):
            popens = [c for c in walk_local(f) if isinstance(c, ast.Call) and dotted(c.func).endswith("Popen")]
            for pc in popens:
                fl = flow_of(f)
                cfg = fl.cfg
                st = enclosing_stmt(pc)
                var = path_of(st.targets[0]) if isinstance(st, ast.Assign) else None
                if var is None:
                    ctx.bad(rid, pc, "Popen result is not kept: the process can neither be stopped nor checked")
                    continue
                pn = cfg.node_of(pc)
                has_loop_after = any(
                    isinstance(n, (ast.While, ast.For)) and cfg.nodes_of(n.test if isinstance(n, ast.While) else n) and
                    cfg.reaches(pn, cfg.node_of(n.test if isinstance(n, ast.While) else n))
                    for n in walk_local(f)
                )
                if var.startswith("self."):
                    _runner_class_lifecycle(ctx, m, f, pc, var)
                    continue
                # (ii) return code examined and raised
                raised = False
                for r in [n for n in walk_local(f) if isinstance(n, ast.Raise)]:
                    for e, t, bn in cfg.guards(cfg.node_of(r)):
                        deps = fl.deps(e, [x for x in cfg.nodes if x.kind == "test" and x.ast is bn.ast][0]) if False else None
                        names = {path_of(x) for x in ast.walk(e) if isinstance(x, (ast.Name, ast.Attribute))}
                        for nm in names:
                            if nm is None:
                                continue
                            if nm == f"{var}.returncode":
                                raised = True
                            else:
                                for d, _ in fl.rd(nm, cfg.node_of(r)):
                                    if d.value is not None and isinstance(d.value, ast.AST) and path_of(d.value) == f"{var}.returncode":
                                        raised = True
                if raised:
                    ctx.ok(rid, pc, f"{q}: non-zero return code of {var} reaches a raise")
                else:
                    ctx.bad(rid, pc, f"the return code of the external program ({var}.returncode) never reaches a raise: an engine failure returns a silently truncated path",
                            construct=f"{var} = Popen(...): return code unchecked")
                if not has_loop_after:
                    continue
                # (i) on the stop path the process group is signalled and waited for
                kills = [n for n in walk_local(f) if isinstance(n, ast.Call) and dotted(n.func) in ("os.killpg", "os.kill") or (isinstance(n, ast.Call) and isinstance(n.func, ast.Attribute) and n.func.attr in ("terminate", "kill") and path_of(n.func.value) == var)]
                waits = [n for n in walk_local(f) if isinstance(n, ast.Call) and isinstance(n.func, ast.Attribute) and n.func.attr in ("wait", "communicate") and path_of(n.func.value) == var]
                stopname = "stop"
                for ac in _add_calls(f):
                    nms, _ = _unpack_names(ac)
                    if nms and len(nms) == 4 and nms[2]:
                        stopname = nms[2]
                stop_br = [
                    n for n in cfg.nodes
                    if n.kind == "branch" and n.ast is not None
                    and any(isinstance(x, ast.Name) and x.id == stopname for x in ast.walk(n.ast))
                    and not any(isinstance(e, ast.Name) and e.id == stopname and not t for e, t in n.facts)
                ]
                ok_i = False
                for b in stop_br:
                    def _names_pid(k):
                        if f"{var}.pid" in ast.unparse(k):
                            return True
                        for a_ in k.args:
                            e_, _ = deref(fl, a_, cfg.node_of(k))
                            if f"{var}.pid" in ast.unparse(e_):
                                return True
                            for a2 in (e_.args if isinstance(e_, ast.Call) else []):
                                e2, _ = deref(fl, a2, cfg.node_of(k))
                                if f"{var}.pid" in ast.unparse(e2):
                                    return True
                        return False

                    k_ok = [k for k in kills if cfg.dominates(b, cfg.node_of(k)) and _names_pid(k) or (k in kills and cfg.dominates(b, cfg.node_of(k)) and isinstance(k.func, ast.Attribute) and k.func.attr in ("terminate", "kill"))]
                    w_ok = [w for w in waits if cfg.dominates(b, cfg.node_of(w))]
                    if k_ok and w_ok:
                        # guarded by "still running"
                        g = [ast.unparse(e) for e, t, bn in cfg.guards(cfg.node_of(k_ok[0])) if t]
                        if any(x == f"{var}.poll() is None" or x == f"{var}.returncode is None" for x in g):
                            ok_i = True
                if ok_i:
                    ctx.ok(rid, pc, f"{q}: on stop, {var} is signalled (if still running) and waited for")
                else:
                    ctx.bad(rid, pc, f"on the stop path the external program {var} is not both signalled (guarded by 'still running') and waited for: it keeps running after propagation ends",
                            construct=f"{var} = Popen(...): not stopped on the stop path")
                # (iii) terminated when the block is left by an exception
                protected = False
                n = st
                while n is not None and n is not f:
                    par = n._parent
                    if isinstance(par, ast.Try) and par.finalbody and n in par.body:
                        if any(isinstance(c, ast.Call) and (dotted(c.func) in ("os.killpg",) or (isinstance(c.func, ast.Attribute) and c.func.attr in ("terminate", "kill", "stop"))) for s in par.finalbody for c in ast.walk(s)):
                            protected = True
                    if isinstance(par, ast.With):
                        for it in par.items:
                            if isinstance(it.context_expr, ast.Call) and dotted(it.context_expr.func).endswith("Popen"):
                                protected = True
                            # contextlib.ExitStack() as X  +  X.callback(<terminating function>, <process>)
                            if isinstance(it.context_expr, ast.Call) and last_name(it.context_expr) == "ExitStack" and isinstance(it.optional_vars, ast.Name):
                                stack = it.optional_vars.id
                                for cb in walk_local(par):
                                    if (isinstance(cb, ast.Call) and isinstance(cb.func, ast.Attribute) and cb.func.attr in ("callback", "push")
                                            and path_of(cb.func.value) == stack and len(cb.args) >= 2 and path_of(cb.args[1]) == var
                                            and cfg.nodes_of(cb) and cfg.dominates(pn, cfg.node_of(cb))):
                                        # the callback must really terminate the process
                                        fn = cb.args[0]
                                        target = None
                                        if isinstance(fn, ast.Name):
                                            for rel2 in (ENGBASE, ENGPARTS, m.rel):
                                                if tree.has_func(rel2, fn.id):
                                                    target = tree.func(rel2, fn.id)
                                        if target is not None and any(isinstance(c2, ast.Call) and (dotted(c2.func) in ("os.killpg", "os.kill") or (isinstance(c2.func, ast.Attribute) and c2.func.attr in ("terminate", "kill"))) for c2 in walk_local(target)):
                                            # no frame processing between Popen and the registration
                                            between = [x for x in walk_local(f) if isinstance(x, ast.Call) and last_name(x) in ("read_and_process_content", "calculate_order", "add_to_path") and cfg.nodes_of(x)
                                                       and cfg.reaches(pn, cfg.node_of(x)) and cfg.reaches(cfg.node_of(x), cfg.node_of(cb))]
                                            if not between:
                                                protected = True
                    n = par
                if protected:
                    ctx.ok(rid, pc, f"{q}: {var} is terminated when the polling block is left by an exception")
                else:
                    ctx.bad(rid, pc, "the external program is not terminated when the polling loop is left by an exception "
                            "(no try/finally or context manager around it): after a reader / order-parameter error it keeps running in its own session",
                            construct=f"{var} = Popen(...): no try/finally around the polling loop")


def _runner_class_lifecycle(ctx, m, f, pc, var):
    rid = "R-12.4"
    c = class_of(f)
    tree = ctx.tree
    attr = var.split(".", 1)[1]
    methods = {s.name: s for s in c.body if isinstance(s, FUNC)}
    ok = True
    # stop(): kill under "still running", wait; __exit__ calls stop
    stop = methods.get("stop")
    ex = methods.get("__exit__")
    if stop is None or ex is None:
        ctx.bad(rid, pc, f"{c.name} starts a process but has no stop()/__exit__ to end it")
        return
    cfgs = cfg_of(stop)
    kills = [n for n in walk_local(stop) if isinstance(n, ast.Call) and dotted(n.func) in ("os.killpg", "os.kill")]
    waits = [n for n in walk_local(stop) if isinstance(n, ast.Call) and isinstance(n.func, ast.Attribute) and n.func.attr == "wait" and path_of(n.func.value) == var]
    g_ok = False
    for k in kills:
        for e, t, bn in cfgs.guards(cfgs.node_of(k)):
            if t and ast.unparse(e) in (f"{var}.returncode is None", f"{var}.poll() is None"):
                g_ok = True
    if not (kills and waits and g_ok):
        ctx.bad(rid, stop, f"{c.name}.stop does not both signal the process group (guarded by 'still running') and wait for it")
        ok = False
    if not any(isinstance(n, ast.Call) and is_self_attr(n.func, "stop") for n in walk_local(ex)):
        ctx.bad(rid, ex, f"{c.name}.__exit__ does not stop the process")
        ok = False
    # users: must be used as a context manager
    users = 0
    for m2, q2, f2 in tree.all_funcs([m.rel]):
        for n in walk_local(f2):
            if isinstance(n, ast.Call) and last_name(n) == c.name:
                users += 1
                par = n._parent
                if not isinstance(par, ast.withitem):
                    ctx.bad(rid, n, f"{c.name} is created outside a with statement: the process is not stopped when the block is left by an exception")
                    ok = False
    # return code: check_poll raises on non-zero
    cp = methods.get("check_poll")
    raised = False
    if cp is not None:
        cfgp = cfg_of(cp)
        for r in [n for n in walk_local(cp) if isinstance(n, ast.Raise)]:
            for e, t, bn in cfgp.guards(cfgp.node_of(r)):
                if t and isinstance(e, ast.Compare) and isinstance(e.ops[0], ast.NotEq) and isinstance(e.comparators[0], ast.Constant) and e.comparators[0].value == 0:
                    raised = True
    if not raised:
        ctx.bad(rid, cp or pc, f"{c.name}: a non-zero return code of the external program does not raise")
        ok = False
    if ok:
        ctx.ok(rid, pc, f"{c.name}: stop() kills (if running) and waits, __exit__ -> stop, used as context manager at {users} site(s), check_poll raises on non-zero return code")


def _mod_guards(cfg, fl, n):
    """Guards dominating node n that test `<counter> % <period>`: [(mod BinOp, means_zero, branch)]."""
    out = []
    for e, t, bn in cfg.guards(n):
        mods = [x for x in ast.walk(e) if isinstance(x, ast.BinOp) and isinstance(x.op, ast.Mod)]
        mods += [x for x in ast.walk(e) if isinstance(x, ast.Call) and last_name(x) in ("mod", "remainder", "fmod") and len(x.args) == 2]
        if not mods:
            continue
        mo = mods[0]
        zero = None
        if isinstance(e, ast.Compare) and len(e.ops) == 1 and e.left is mo and isinstance(e.comparators[0], ast.Constant) and e.comparators[0].value == 0:
            if isinstance(e.ops[0], ast.Eq):
                zero = t
            elif isinstance(e.ops[0], (ast.NotEq, ast.Gt)):
                zero = not t
        elif e is mo:
            zero = not t
        out.append((mo, zero, bn))
    return out


def _counter_origin(f, fl, cfg, e, at):
    """('zero', name) when e is a loop counter whose first value is 0; ('offset', text) otherwise."""
    if isinstance(e, ast.Name):
        d, _ = deref(fl, e, at)
        if d is not e and not isinstance(d, ast.Name):
            e = d
    if not isinstance(e, ast.Name):
        return "offset", ast.unparse(e)
    for lp in [x for x in walk_local(f) if isinstance(x, ast.For)]:
        tg = lp.target
        it = lp.iter
        if isinstance(tg, ast.Name) and tg.id == e.id and isinstance(it, ast.Call) and last_name(it) == "range":
            if len(it.args) == 1 or (isinstance(it.args[0], ast.Constant) and it.args[0].value == 0 and len(it.args) == 2):
                return "zero", e.id
            return "offset", f"{e.id} from {ast.unparse(it)}"
        if isinstance(tg, ast.Tuple) and tg.elts and isinstance(tg.elts[0], ast.Name) and tg.elts[0].id == e.id and isinstance(it, ast.Call) and last_name(it) == "enumerate":
            st = kwarg(it, "start", 1)
            if st is None or (isinstance(st, ast.Constant) and st.value == 0):
                return "zero", e.id
            return "offset", f"{e.id} from {ast.unparse(it)}"
    return "unknown", e.id


def frame_cadence(ctx, rid, what=""):
    """In-process engines (the MD loop runs inside _propagate_from): the test that selects the items
    stored as frames, `<counter> % subcycles == 0`, is on the bare item counter starting at 0 - item 0,
    the phase point the propagation was started from, is frame 0 for every value of subcycles."""
    n = 0
    for m, cname, c, f in engines(ctx.tree):
        if m.rel not in ENGINE_FILES:
            continue
        fl = flow_of(f)
        cfg = fl.cfg
        for call in _add_calls(f):
            an = cfg.node_of(call)
            for mo, zero, bn in _mod_guards(cfg, fl, an):
                n += 1
                left = mo.left if isinstance(mo, ast.BinOp) else mo.args[0]
                if zero is not True:
                    ctx.bad(rid, mo, f"{cname}._propagate_from stores a frame when `{short(mo, 40)}` is not zero (or the test has a shape the analysis cannot read): item 0, the starting phase point, is not frame 0{what}", construct=f"{cname}: storing test on {short(mo, 40)}")
                    continue
                kind, txt = _counter_origin(f, fl, cfg, left, an)
                if kind == "zero":
                    ctx.ok(rid, mo, f"{cname}: frames are the items with `{short(mo, 40)} == 0`, counter `{txt}` starts at 0 - the starting phase point is frame 0 for every subcycles")
                elif kind == "offset":
                    ctx.bad(rid, mo, f"{cname}._propagate_from selects the stored items by `{short(mo, 40)} == 0` with `{txt}` instead of the bare item counter: for subcycles > 1 item 0 - the phase point the propagation starts from - is not stored, the first frame is a state subcycles-1 steps later{what}", construct=f"{cname}: storing test on {short(left, 40)}")
                else:
                    raise AnalysisError(f"{rid}: {cname}: cannot tell where the counter `{txt}` of the storing test starts")
    if n == 0:
        raise AnalysisError(f"{rid}: no in-process engine with a `counter % subcycles` storing test found")


def energies_per_frame(ctx, rid, what=""):
    """In-process engines: the lists handed to path.update_energies get one entry per stored frame -
    every append to them is controlled by exactly the storing test that controls add_to_path
    (update_energies assigns entry k to frame k)."""
    n = 0
    for m, cname, c, f in engines(ctx.tree):
        if m.rel not in ENGINE_FILES:
            continue
        fl = flow_of(f)
        cfg = fl.cfg
        adds = _add_calls(f)
        ups = [x for x in walk_local(f) if isinstance(x, ast.Call) and last_name(x) == "update_energies"]
        if not adds or not ups:
            continue
        an = cfg.node_of(adds[0])
        mg = _mod_guards(cfg, fl, an)
        if not mg:
            continue
        roots = set()
        for u in ups:
            for a in u.args:
                roots |= {x.id for x in ast.walk(a) if isinstance(x, ast.Name)}
                if isinstance(a, ast.Name):
                    for kind, node, at, extra in fl.sources(a, cfg.node_of(u)):
                        if kind == "expr":
                            roots |= {x.id for x in ast.walk(node) if isinstance(x, ast.Name)}
        roots -= {"np", "self", "numpy"}
        aguards = {(ast.unparse(e), t) for e, t, bn in cfg.guards(an)}
        mtxt = {ast.unparse(mo) for mo, z, bn in mg}
        for ap in [x for x in walk_local(f) if isinstance(x, ast.Call) and isinstance(x.func, ast.Attribute) and x.func.attr in ("append", "extend")]:
            r = ap.func.value
            while isinstance(r, (ast.Subscript, ast.Attribute)):
                r = r.value
            if not (isinstance(r, ast.Name) and r.id in roots):
                continue
            n += 1
            g = {(ast.unparse(e), t) for e, t, bn in cfg.guards(cfg.node_of(ap))}
            under = any(any(mt in ge for mt in mtxt) for ge, t in g)
            extra = {x for x in g - aguards}
            if not under:
                ctx.bad(rid, ap, f"{cname}._propagate_from records an energy (`{short(ap, 50)}`) for every MD step, not under the storing test `{sorted(mtxt)[0]} == 0` that selects the frames: update_energies gives entry k to frame k, so with subcycles > 1 every frame after the first carries the energy of another configuration{what}", construct=f"{cname}: energy appended outside the storing test")
            elif extra:
                ctx.bad(rid, ap, f"{cname}._propagate_from records an energy (`{short(ap, 50)}`) under a condition that does not control the frames ({sorted(extra)[0][0]}): energies and frames get out of step{what}", construct=f"{cname}: energy appended under an extra condition")
            else:
                ctx.ok(rid, ap, f"{cname}: `{short(ap, 40)}` is controlled by the storing test of the frames")
    if n == 0:
        raise AnalysisError(f"{rid}: no energy list filled inside an in-process engine loop found")


def direction_flag_set(ctx, rid, what=""):
    """EngineBase.propagate tells the system which way the coming propagation runs before it starts:
    `system.vel_rev = reverse` dominates the call of _propagate_from. calculate_order orients the
    velocities by the *system's* flag (not by the snapshot's), so without the store every frame of a
    backward propagation gets the order parameter of the forward-pointing velocities."""
    f = ctx.tree.func(ENGBASE, "EngineBase.propagate")
    fl = flow_of(f)
    cfg = fl.cfg
    params = [a.arg for a in f.args.args]
    calls = [c for c in walk_local(f) if isinstance(c, ast.Call) and last_name(c) == "_propagate_from"]
    if not calls:
        raise AnalysisError(f"{rid}: EngineBase.propagate does not call _propagate_from")
    for c in calls:
        rev = kwarg(c, "reverse", 5)
        sysarg = kwarg(c, "system", 2)
        if rev is None or sysarg is None or not isinstance(sysarg, ast.Name):
            raise AnalysisError(f"{rid}: cannot read the system / reverse arguments of _propagate_from")
        stores = [st for st in walk_local(f) if isinstance(st, ast.Assign) and any(isinstance(t, ast.Attribute) and t.attr == "vel_rev" and isinstance(t.value, ast.Name) and t.value.id == sysarg.id for t in st.targets)]
        good = [st for st in stores if ast.unparse(st.value) == ast.unparse(rev) and cfg.dominates(cfg.node_of(st), cfg.node_of(c))]
        later = [st for st in stores if st not in good and cfg.reaches(cfg.node_of(st), cfg.node_of(c))]
        if good and not [st for st in later if any(cfg.reaches(cfg.node_of(g), cfg.node_of(st)) for g in good)]:
            ctx.ok(rid, c, f"propagate: `{short(good[0], 40)}` dominates the propagation")
        else:
            ctx.bad(rid, c, f"EngineBase.propagate starts _propagate_from without having set `{sysarg.id}.vel_rev` to the direction of the propagation (`{short(rev, 20)}`): calculate_order orients the velocities by the system's flag, so in one of the two directions every frame's order parameter is computed with the velocities pointing the wrong way - interface tests run on values that are not the frames' own{what}",
                    construct="propagate: direction flag not set before _propagate_from")


def r125(ctx, m, cname, f, info):
    rid = "R-12.5"
    fl = flow_of(f)
    cfg = fl.cfg
    call, st, stop, succ, inner, stop_true = info
    steps = [n for n in walk_local(f) if isinstance(n, ast.Call) and isinstance(n.func, ast.Attribute) and n.func.attr in ("step", "run_steps", "integrate")]
    steps = [s for s in steps if path_of(s.func.value) not in ("self", None) and not dotted(s.func).startswith("self.")]
    if not steps:
        return
    an = cfg.node_of(call)
    for s in steps:
        sn = cfg.node_of(s)
        if cfg.dominates(sn, an):
            ctx.bad(rid, s, "an integrator step is taken before the first frame is appended: the first frame of the path is not the given phase point")
        else:
            # the step must not precede add within one loop iteration either
            head = cfg.node_of(inner[0]) if isinstance(inner[0], ast.For) else cfg.node_of(inner[0].test)
            if an.id in cfg.reachable(sn, avoid=[head]):
                ctx.bad(rid, s, "within one loop iteration the integrator step precedes the append: the initial phase point is never stored")
            else:
                ctx.ok(rid, s, f"{cname}: the first add_to_path is reachable before any integrator step; the step closes the iteration")


def r126(ctx, m, cname, f, info):
    rid = "R-12.6"
    fl = flow_of(f)
    cfg = fl.cfg
    call, st, stop, succ, inner, stop_true = info
    bad = False

    def has_negation(v):
        for x in ast.walk(v):
            if isinstance(x, ast.UnaryOp) and isinstance(x.op, ast.USub) and not isinstance(x.operand, ast.Constant):
                return True
            if isinstance(x, ast.BinOp) and isinstance(x.op, ast.Mult):
                for b in (x.left, x.right):
                    if isinstance(b, ast.Constant) and isinstance(b.value, (int, float)) and b.value < 0:
                        return True
                    if isinstance(b, ast.UnaryOp) and isinstance(b.op, ast.USub) and isinstance(b.operand, ast.Constant):
                        return True
        return False

    for n in walk_local(f):
        tgt = None
        neg = False
        if isinstance(n, ast.AugAssign) and isinstance(n.op, (ast.Mult, ast.Div)):
            tgt = path_of(n.target)
            v = n.value
            neg = (isinstance(v, ast.UnaryOp) and isinstance(v.op, ast.USub)) or (isinstance(v, ast.Constant) and isinstance(v.value, (int, float)) and v.value < 0)
        elif isinstance(n, ast.Assign) and len(n.targets) == 1:
            tgt = path_of(n.targets[0])
            neg = has_negation(n.value)
        if not neg or tgt is None or "vel" not in tgt.lower():
            continue
        guards = cfg.guards(cfg.node_of(n))
        own = {x.id for x in ast.walk(n) if isinstance(x, ast.Name)} | {x.attr for x in ast.walk(n) if isinstance(x, ast.Attribute)}
        if ("reverse" in own or "vel_rev" in own) or any(
            "reverse" in {x.id for x in ast.walk(e) if isinstance(x, ast.Name)} or "vel_rev" in ast.unparse(e) for e, t, bn in guards
        ):
            ctx.bad(rid, n, "velocities are negated under `reverse` inside _propagate_from although calculate_order already negates them for vel_rev frames: "
                    "for velocity-dependent order parameters the order stored while propagating backward has the opposite sign of the one recomputed from the stored frame")
            bad = True
    # the vel= argument itself must not be a negated expression
    for oc in [c for c in walk_local(f) if isinstance(c, ast.Call) and last_name(c) == "calculate_order"]:
        v = kwarg(oc, "vel", 2)
        if v is not None and any(isinstance(x, ast.UnaryOp) and isinstance(x.op, ast.USub) for x in ast.walk(v)) or (v is not None and isinstance(v, ast.IfExp)):
            ctx.bad(rid, oc, "vel= handed to calculate_order is sign-flipped/conditional in the engine: direction is applied twice")
            bad = True
    if not bad:
        ctx.ok(rid, call, f"{cname}: raw integrated velocities reach calculate_order; the only reverse-conditional negation is calculate_order's own")


def r127(ctx):
    rid = "R-12.7"
    tree = ctx.tree
    for rel in (LAMMPS, CP2K, GROMACS):
        for m, q, f in tree.all_funcs([rel]):
            for w in [n for n in walk_local(f) if isinstance(n, ast.While)]:
                # sleeps directly in this loop (not in a nested while)
                def direct(node):
                    out = []
                    for c in ast.iter_child_nodes(node):
                        if isinstance(c, (ast.While,) + FUNC):
                            continue
                        if isinstance(c, ast.Call) and last_name(c) == "sleep":
                            out.append(c)
                        out.extend(direct(c))
                    return out
                body = ast.Module(body=w.body, type_ignores=[])
                sl = direct(body)
                if not sl:
                    continue
                def polls(node):
                    out = []
                    for c in ast.iter_child_nodes(node):
                        if isinstance(c, (ast.While,) + FUNC):
                            continue
                        if isinstance(c, ast.Call) and last_name(c) in ("poll", "check_poll"):
                            out.append(c)
                        out.extend(polls(c))
                    return out
                in_test = [c for c in ast.walk(w.test) if isinstance(c, ast.Call) and last_name(c) in ("poll", "check_poll")]
                in_body = polls(body)
                if in_test or in_body:
                    ctx.ok(rid, w, f"{q}: sleeping wait loop observes the process ({'condition' if in_test else 'body'})")
                else:
                    ctx.bad(rid, w, "a loop that sleeps while waiting for the external program's output never checks whether the program is still running: "
                            "if it dies the loop waits for ever instead of raising",
                            construct=f"while {short(w.test, 60)}: ... sleep(...) without poll()")


def r129(ctx, m, cname, f):
    """Abstract interpretation of the polling loop: once the external program has been
    observed finished, the reader runs at least once more before the loop is left."""
    rid = "R-12.9"
    fl = flow_of(f)
    cfg = fl.cfg
    reads = [c for c in walk_local(f) if isinstance(c, ast.Call) and last_name(c) == "read_and_process_content"]
    if not reads:
        return
    loops = []
    for w in [w for w in walk_local(f) if isinstance(w, ast.While)]:
        if any(w in loops_of(r) for r in reads):
            loops.append(w)
    if not loops:
        raise AnalysisError(f"R-12.9: {cname}: reader calls are not inside a polling while-loop")
    w = loops[-1] if len(loops) == 1 else [l for l in loops if not any(l in loops_of(o) for o in loops if o is not l)][0]
    stopname = None
    for ac in _add_calls(f):
        nms, _ = _unpack_names(ac)
        if nms and len(nms) == 4:
            stopname = nms[2]
    tnode = cfg.node_of(w.test)
    # counters compared with constants in the loop condition
    counters = sorted({x.left.id for x in ast.walk(w.test) if isinstance(x, ast.Compare) and isinstance(x.left, ast.Name) and isinstance(x.comparators[0], ast.Constant)})
    init = {}
    for c in counters:
        vals = {d.value.value for d, _ in fl.rd(c, tnode) if d.kind == "assign" and isinstance(d.value, ast.Constant) and not _inside_loop(d.stmt, w)}
        init[c] = min(vals) if vals else 0
    read_nodes = {cfg.node_of(r).id for r in reads}
    SAT = 6

    def ev(e, st):
        """-> list of (bool, state) ; state = (counters tuple, observed, read_since)"""
        cnt, obs, rs = st
        if isinstance(e, ast.BoolOp):
            outs = [(None, st)]
            is_or = isinstance(e.op, ast.Or)
            results = []
            pending = [(st, 0)]
            while pending:
                cur, i = pending.pop()
                if i == len(e.values):
                    results.append((not is_or, cur))
                    continue
                for val, nst in ev(e.values[i], cur):
                    if val == is_or:
                        results.append((val, nst))
                    else:
                        pending.append((nst, i + 1))
            return results
        if isinstance(e, ast.UnaryOp) and isinstance(e.op, ast.Not):
            return [(not v, s2) for v, s2 in ev(e.operand, st)]
        if not isinstance(e, (ast.BoolOp, ast.UnaryOp)) and stopname and any(isinstance(x, ast.Name) and x.id == stopname for x in ast.walk(e)):
            return [(False, st)]
        if isinstance(e, ast.Compare) and len(e.ops) == 1:
            l, r, op = e.left, e.comparators[0], e.ops[0]
            if isinstance(l, ast.Call) and last_name(l) == "poll" and isinstance(r, ast.Constant) and r.value is None and isinstance(op, (ast.Is, ast.IsNot)):
                is_none_true = isinstance(op, ast.Is)
                if obs:
                    return [(not is_none_true, st)]
                return [(is_none_true, st), (not is_none_true, (cnt, True, False))]
            if isinstance(l, ast.Name) and l.id in counters and isinstance(r, ast.Constant) and isinstance(r.value, int):
                v = dict(cnt)[l.id]
                res = {ast.LtE: v <= r.value, ast.Lt: v < r.value, ast.GtE: v >= r.value, ast.Gt: v > r.value, ast.Eq: v == r.value, ast.NotEq: v != r.value}.get(type(op))
                if res is not None:
                    return [(res, st)]
        if stopname and any(isinstance(x, ast.Name) and x.id == stopname for x in ast.walk(e)):
            return [(False, st)]  # the stop path is allowed to leave without a further read
        return [(True, st), (False, st)]

    start = (tnode.id, (tuple(sorted(init.items())), False, False))
    seen = set()
    todo = [start]
    violations = []
    steps = 0
    while todo and steps < 20000:
        steps += 1
        nid, st = todo.pop()
        if (nid, st) in seen:
            continue
        seen.add((nid, st))
        n = cfg.nodes[nid]
        cnt, obs, rs = st
        if n.kind == "test":
            for val, nst in ev(n.ast, st):
                for s2, lab in cfg.succ[nid]:
                    if lab == ("T" if val else "F"):
                        if nid == tnode.id and not val:
                            if nst[1] and not nst[2]:
                                violations.append(nst)
                            continue  # left the loop
                        todo.append((s2, nst))
            continue
        if n.kind == "stmt" and isinstance(n.ast, (ast.Assign, ast.AugAssign)):
            d = dict(cnt)
            if isinstance(n.ast, ast.Assign) and len(n.ast.targets) == 1 and isinstance(n.ast.targets[0], ast.Name) and n.ast.targets[0].id in d and isinstance(n.ast.value, ast.Constant):
                d[n.ast.targets[0].id] = min(SAT, n.ast.value.value)
            if isinstance(n.ast, ast.AugAssign) and isinstance(n.ast.target, ast.Name) and n.ast.target.id in d and isinstance(n.ast.value, ast.Constant) and isinstance(n.ast.op, ast.Add):
                d[n.ast.target.id] = min(SAT, d[n.ast.target.id] + n.ast.value.value)
            cnt = tuple(sorted(d.items()))
        if nid in read_nodes:
            rs = True
        nst = (cnt, obs, rs)
        if n.kind == "stmt" and isinstance(n.ast, (ast.Return, ast.Raise)):
            continue
        for s2, lab in cfg.succ[nid]:
            if lab == "exc":
                continue
            sn = cfg.nodes[s2]
            # leaving the loop by break: only the stop path does that (pruned above)
            if sn.ast is not None and not _inside_loop(sn.ast, w) and sn.kind not in ("branch",) and nid != tnode.id:
                if n.kind == "stmt" and isinstance(n.ast, ast.Break):
                    if obs and not rs:
                        violations.append(nst)
                    continue
            todo.append((s2, nst))
    if violations:
        ctx.bad(rid, w,
                f"{cname}: after the external program has been observed finished the polling loop can be left without reading the trajectory once more: "
                "frames written between the last read and the exit of the program are dropped and a truncated path is returned without an error",
                construct=f"while {short(w.test, 80)}")
    else:
        ctx.ok(rid, w, f"{cname}: every exit of the polling loop after the program finished passes one more read ({len(seen)} abstract states over counters {counters})")


def _inside_loop(node, loop):
    n = node
    while n is not None:
        if n is loop:
            return True
        n = getattr(n, "_parent", None)
    return False


def _monomial(e, env=None):
    """(coeff, {symbol: power}) of a product of names / attributes / constants; None otherwise."""
    from fractions import Fraction
    env = env or {}
    if isinstance(e, ast.Constant) and isinstance(e.value, (int, float)) and not isinstance(e.value, bool):
        return (Fraction(str(e.value)), {})
    if isinstance(e, ast.Name):
        return env.get(e.id, (Fraction(1), {e.id: 1}))
    if isinstance(e, ast.Attribute):
        return (Fraction(1), {ast.unparse(e): 1})
    if isinstance(e, ast.BinOp) and isinstance(e.op, ast.Mult):
        a, b = _monomial(e.left, env), _monomial(e.right, env)
        if a is None or b is None:
            return None
        pw = dict(a[1])
        for k, v in b[1].items():
            pw[k] = pw.get(k, 0) + v
        return (a[0] * b[0], pw)
    return None


def r1216(ctx, m, cname, f):
    """calculate_order's all-or-nothing contract: if any one of xyz / vel / box is None the method
    discards all three and re-reads `system.config[0]` - the configuration the propagation
    started from. A call inside a frame loop that hands over this frame's arrays must therefore not
    pass a value that the function itself treats as possibly None (it tests it with `is None` /
    `is not None` elsewhere) unless the call is guarded by that test."""
    rid = "R-12.16"
    fl = flow_of(f)
    cfg = fl.cfg
    maybe_none = set()
    for n in walk_local(f):
        if isinstance(n, ast.Compare) and len(n.ops) == 1 and isinstance(n.ops[0], (ast.Is, ast.IsNot)) and isinstance(n.comparators[0], ast.Constant) and n.comparators[0].value is None and isinstance(n.left, ast.Name):
            maybe_none.add(n.left.id)
    n_calls = 0
    for oc in [c for c in walk_local(f) if isinstance(c, ast.Call) and last_name(c) == "calculate_order"]:
        given = {kw: kwarg(oc, kw, {"xyz": 1, "vel": 2, "box": 3}[kw]) for kw in ("xyz", "vel", "box")}
        if all(v is None for v in given.values()):
            continue  # the method reads the configuration itself: nothing to discard
        n_calls += 1
        at = cfg.node_of(oc)
        facts = [(ast.unparse(e), t) for e, t, _ in cfg.guards(at)]
        bad = None
        for kw, v in given.items():
            if v is None or (isinstance(v, ast.Constant) and v.value is None):
                bad = (kw, "is not given (None)")
                break
            if isinstance(v, ast.Name) and v.id in maybe_none and (f"{v.id} is not None", True) not in facts and (f"{v.id} is None", False) not in facts:
                # path-sensitive: does a definition that the function tests for None reach this call
                # along a path that passes neither the "is not None" side of such a test nor a re-binding?
                def _nn(e, t):
                    return (isinstance(e, ast.Compare) and len(e.ops) == 1 and isinstance(e.left, ast.Name) and e.left.id == v.id
                            and isinstance(e.comparators[0], ast.Constant) and e.comparators[0].value is None
                            and ((isinstance(e.ops[0], ast.IsNot) and t) or (isinstance(e.ops[0], ast.Is) and not t)))
                nonnull = {nd.id for nd in cfg.nodes if nd.kind == "branch" and any(_nn(e, t) for e, t in nd.facts)}
                tests = {nd.id for nd in cfg.nodes if nd.kind == "branch" and any(_nn(e, t) or _nn(e, not t) for e, t in nd.facts)}
                alld = [d for d in fl.defs if d.path == v.id and d.at is not None]
                unsafe = False
                for d, sfx in fl.rd(v.id, at):
                    if sfx:
                        continue
                    others = [o.at for o in alld if o.at.id != d.at.id]
                    # is this very definition the subject of a None test?
                    if not any(cfg.reaches(d.at, cfg.nodes[x], avoid=others) for x in tests):
                        continue
                    if cfg.reaches(d.at, at, avoid=others + [cfg.nodes[x] for x in nonnull]):
                        unsafe = True
                if unsafe:
                    bad = (kw, f"is `{v.id}`, which this function itself treats as possibly None (`{v.id} is None` is tested elsewhere) and which reaches this call without passing the not-None side of such a test or a re-binding")
                    break
        if bad:
            ctx.bad(rid, oc, f"{cname}._propagate_from hands this frame's arrays to calculate_order, but {bad[0]}= {bad[1]}: when one of xyz / vel / box is None, calculate_order discards all three and re-reads system.config[0], the configuration the propagation started from - every frame then stores the first frame's order parameter and the stop rule never sees a crossing",
                    construct=f"calculate_order(..., {bad[0]}={short(given[bad[0]], 30) if given[bad[0]] is not None else 'None'})")
        else:
            ctx.ok(rid, oc, f"{cname}: xyz, vel and box handed to calculate_order are all present (none of them is treated as optional here)")
    return n_calls


def r1217(ctx, m, cname, f):
    """Frames from sibling on-the-fly readers are carried over between polls. When one frame is
    assembled from several files (CP2K: positions and velocities), each reader advances on its own;
    a poll can find more complete frames in one file than in the other. The surplus must stay
    queued for the next poll: every reader result is *added* to a buffer that lives outside the
    polling loop (`buf += reader.read_and_process_content()`), never bound afresh per poll."""
    rid = "R-12.17"
    fl = flow_of(f)
    cfg = fl.cfg
    reads = [c for c in walk_local(f) if isinstance(c, ast.Call) and isinstance(c.func, ast.Attribute) and c.func.attr == "read_and_process_content"]
    readers_ = {ast.unparse(c.func.value) for c in reads}
    if len(readers_) < 2:
        return 0
    n = 0
    for c in reads:
        n += 1
        st = enclosing_stmt(c)
        loops = [l for l in loops_of(c) if isinstance(l, ast.While)]
        buf = None
        if isinstance(st, ast.AugAssign) and isinstance(st.op, ast.Add) and isinstance(st.target, ast.Name) and st.value is c:
            buf = st.target.id
        elif isinstance(st, ast.Expr) and isinstance(st.value, ast.Call) and isinstance(st.value.func, ast.Attribute) and st.value.func.attr == "extend" and isinstance(st.value.func.value, ast.Name) and st.value.args and st.value.args[0] is c:
            buf = st.value.func.value.id
        outside = False
        if buf is not None and loops:
            outer = loops[-1]
            outside = any(d.path == buf and d.kind == "assign" and d.stmt is not None and not any(d.stmt is x for x in ast.walk(outer)) for d in fl.defs)
            rebound_inside = any(d.path == buf and d.kind == "assign" and d.stmt is not None and any(d.stmt is x for x in ast.walk(outer)) for d in fl.defs)
            outside = outside and not rebound_inside
        if buf is not None and outside:
            ctx.ok(rid, c, f"{cname}: frames from `{ast.unparse(c.func.value)}` are added to `{buf}`, which persists across polls: a surplus frame waits for its partner")
        else:
            ctx.bad(rid, c, f"{cname}._propagate_from assembles each frame from {len(readers_)} on-the-fly readers but binds the result of `{short(c, 50)}` afresh at every poll: when a poll finds more complete frames in one file than in the other, the surplus frame is dropped, the path skips a time step and every later frame pairs the positions of step t+1 with the velocities of step t", construct=f"{cname}: reader result not carried over between polls: {short(st, 60)}")
    return n


def r1214(ctx):
    """Step budget: every engine lets the MD program / integrator loop run exactly
    path.maxlen * subcycles steps, so that a trajectory which reaches no interface delivers
    maxlen frames and is stopped (and rejected) by add_to_path's length test - never a shorter
    one that the callers would take for a completed path."""
    rid = "R-12.14"
    tree = ctx.tree
    want = {"path.maxlen": 1, "self.subcycles": 1}
    sites = []
    for rel in ENGINE_FILES:
        for m, q, f in tree.all_funcs([rel]):
            if f.name != "_propagate_from":
                continue
            found = []
            for n in walk_local(f):
                cand = None
                if isinstance(n, ast.Call) and last_name(n) == "range" and len(n.args) == 1:
                    cand = n.args[0]
                if isinstance(n, ast.keyword) and n.arg in ("steps", "nsteps"):
                    cand = n.value
                if isinstance(n, ast.Dict):
                    for k, v in zip(n.keys, n.values):
                        if isinstance(k, ast.Constant) and isinstance(k.value, str) and "nsteps" in k.value.lower():
                            found.append((v, n))
                if cand is not None and isinstance(cand, ast.Name):
                    # a budget held in a local (`n_md_steps = self.subcycles * path.maxlen`)
                    from ..flow import deref as _deref0, flow_of as _flow_of0
                    from ..loader import enclosing_stmt as _encl0
                    try:
                        _fl0 = _flow_of0(f)
                        _c2, _ = _deref0(_fl0, cand, _fl0.cfg.node_of(_encl0(cand)))
                    except Exception:
                        _c2 = cand
                    if "maxlen" in ast.unparse(_c2):
                        found.append((cand, n))
                elif cand is not None and "maxlen" in ast.unparse(cand):
                    found.append((cand, n))
            # CP2K: (path.maxlen, self.subcycles) handed separately to the input writer, multiplied there
            for c in [c for c in walk_local(f) if isinstance(c, ast.Call) and last_name(c) in ("write_for_run_vel", "write_for_continue", "write_for_step_vel")]:
                args = [ast.unparse(a) for a in c.args]
                if "path.maxlen" in args and "self.subcycles" in args:
                    callee = next((g for mm, qq, g in tree.all_funcs([rel]) if g.name == last_name(c)), None)
                    if callee is not None:
                        ps = [a.arg for a in callee.args.args]
                        pn, psub = ps[args.index("path.maxlen")], ps[args.index("self.subcycles")]
                        prod = [b for b in walk_local(callee) if isinstance(b, ast.BinOp) and isinstance(b.op, ast.Mult) and {ast.unparse(b.left), ast.unparse(b.right)} == {pn, psub}]
                        if prod:
                            sites.append((q, c, (1, dict(want)), "path.maxlen and self.subcycles handed to " + last_name(c) + ", multiplied there (STEPS)"))
                        else:
                            sites.append((q, c, None, f"{last_name(c)} does not multiply its nsteps and subcycles parameters"))
            for e, n in found:
                e2 = e
                if isinstance(e, ast.Name):
                    # a budget held in a local (`nsteps = path.maxlen * self.subcycles`) is the same budget
                    from ..flow import deref as _deref, flow_of as _flow_of
                    from ..loader import enclosing_stmt as _encl
                    try:
                        _fl = _flow_of(f)
                        e2, _ = _deref(_fl, e, _fl.cfg.node_of(_encl(e)))
                    except Exception:
                        e2 = e
                sites.append((q, n if not isinstance(n, ast.keyword) else e, _monomial(e2), short(e2, 50)))
    by_engine = {}
    for q, node, mono, txt in sites:
        by_engine.setdefault(q, []).append((node, mono, txt))
    if len(by_engine) < 5:
        raise AnalysisError(f"R-12.14: step budget found in {sorted(by_engine)} only (expected all five engines)")
    from fractions import Fraction
    for q, lst in sorted(by_engine.items()):
        for node, mono, txt in lst:
            if mono is not None and mono[0] == 1 and mono[1] == want:
                ctx.ok(rid, node, f"{q}: step budget = path.maxlen * self.subcycles ({txt})")
            else:
                ctx.bad(rid, node, f"{q}: the number of MD steps is `{txt}`, not path.maxlen * self.subcycles as in the sibling engines: a trajectory that reaches no interface ends with fewer than maxlen frames (or runs on), so the length test of add_to_path / of the zero-swap moves does not see a completed path for what it is",
                        construct=f"{q}: step budget {txt}")


def r1219(ctx):
    """Propagation stops with success at the first frame *outside* the interfaces: in add_to_path
    every `success = True` store is guarded by `order < left` or `order > right` of the last
    frame, both strict (a frame on an interface is not outside), one store per side."""
    from ..util import oriented
    rid = "R-12.19"
    f = ctx.tree.func(ENGBASE, "EngineBase.add_to_path")
    params = [a.arg for a in f.args.args]
    if len(params) < 4:
        raise AnalysisError("R-12.19: add_to_path does not take (path, phase_point, left, right)")
    off = 1 if params[0] in ("self", "cls") else 0
    pth, pp, L, R = params[off:off + 4]
    cfg = cfg_of(f)
    sides = {}
    rets = [r for r in walk_local(f) if isinstance(r, ast.Return) and isinstance(r.value, ast.Tuple) and len(r.value.elts) == 4 and isinstance(r.value.elts[1], ast.Name)]
    if not rets or len({r.value.elts[1].id for r in rets}) != 1:
        raise AnalysisError("R-12.19: add_to_path does not return (status, success, stop, add) with one success variable")
    sv = rets[0].value.elts[1].id
    stores = [st for st in walk_local(f) if isinstance(st, ast.Assign) and any(isinstance(t, ast.Name) and t.id == sv for t in st.targets) and isinstance(st.value, ast.Constant) and st.value.value is True]
    if not stores:
        raise AnalysisError("R-12.19: no `success = True` store in add_to_path")
    for st in stores:
        found = False
        for e, truth, bn in cfg.guards(cfg.node_of(st)):
            o = oriented(e, lambda x: not (isinstance(x, ast.Name) and x.id in (L, R)))
            if o is None or not (isinstance(o[2], ast.Name) and o[2].id in (L, R)):
                continue
            lhs, op, rhs = o
            if isinstance(lhs, ast.Name):
                # the last frame's order held in a local (`last_order = path.phasepoints[-1].order[0]`)
                try:
                    _fl = flow_of(f)
                    lhs, _ = deref(_fl, lhs, bn)
                except Exception:
                    pass
            txt = ast.unparse(lhs)
            if not (".order[0]" in txt and (txt.startswith(f"{pth}.phasepoints[-1]") or txt.startswith(pp + "."))):
                continue
            side = "left" if rhs.id == L else "right"
            # what the guard says about the frame on this path
            rel = {(ast.Lt, True): "<", (ast.GtE, False): "<", (ast.LtE, True): "<=", (ast.Gt, False): "<=",
                   (ast.Gt, True): ">", (ast.LtE, False): ">", (ast.GtE, True): ">=", (ast.Lt, False): ">="}.get((type(op), truth))
            if rel is None:
                continue
            want = "<" if side == "left" else ">"
            if rel == want:
                if (side, "exit") not in sides:
                    sides[(side, "exit")] = st
                    found = True
                    ctx.ok(rid, st, f"add_to_path: success on the {side} side only for a frame with order {want} {side} (strictly outside)")
            elif rel == want + "=":
                found = True
                sides[(side, "exit")] = st
                ctx.bad(rid, st, f"add_to_path reports success and stops for a frame with order {rel} {side}: a frame exactly on the {side} interface is not outside the interfaces (the sibling test on the other side and the moves that continue such a path treat it as inside), so the path is cut short and reported as completed", construct=f"add_to_path: success under order {rel} {side}")
            # guards that put the frame on the inner side (the elif of the other test) are not exits
        if not found and not any(v is st for v in sides.values()):
            ctx.bad(rid, st, "add_to_path sets success = True on a path that is not guarded by the last frame lying outside one of the interfaces", construct="add_to_path: unguarded success")
    if {k[0] for k in sides} != {"left", "right"}:
        ctx.bad(rid, f, f"add_to_path reports success on {sorted(k[0] for k in sides)} only: a frame beyond the other interface does not end the propagation", construct="add_to_path: one-sided stop")


def r1220(ctx):
    """GROMACS: the on-the-fly reader opens <name>.trr / <name>.edr as soon as they exist, so files
    of that name left over by a crashed run must be gone before mdrun starts. The list handed to
    _remove_files is computed from the table of output files only after the names the reader
    waits for (trr, edr) were entered into that table."""
    rid = "R-12.20"
    f = next((g for m, q, g in ctx.tree.all_funcs([GROMACS]) if q.endswith("GromacsEngine._propagate_from")), None)
    if f is None:
        raise AnalysisError("R-12.20: GromacsEngine._propagate_from not found")
    fl = flow_of(f)
    cfg = fl.cfg
    rm = [c for c in walk_local(f) if isinstance(c, ast.Call) and is_self_attr(c.func, "_remove_files") and len(c.args) >= 2]
    runners = [x for x in walk_local(f) if isinstance(x, ast.Call) and last_name(x) == "GromacsRunner"]
    if not runners:
        raise AnalysisError("R-12.20: GromacsEngine._propagate_from does not start a GromacsRunner (cannot decide)")
    rn = cfg.node_of(runners[0])
    rm = [c for c in rm if cfg.node_of(c).id != rn.id and cfg.reaches(cfg.node_of(c), rn)]
    if not rm:
        ctx.bad(rid, f, "GromacsEngine._propagate_from no longer removes left-over output files before mdrun: the reader starts on a stale .trr", construct="no _remove_files before mdrun")
        return
    for c in rm:
        lst = c.args[1]
        at = cfg.node_of(c)
        if isinstance(lst, ast.Name):
            lst, at = deref(fl, lst, at)
        tables = {x.func.value.id for x in ast.walk(lst) if isinstance(x, ast.Call) and isinstance(x.func, ast.Attribute) and x.func.attr in ("items", "values", "keys") and isinstance(x.func.value, ast.Name)}
        tables |= {x.value.id for x in ast.walk(lst) if isinstance(x, ast.Subscript) and isinstance(x.value, ast.Name)}
        if len(tables) != 1:
            raise AnalysisError(f"R-12.20: the list of files to remove `{short(lst, 50)}` is not computed from one table of output files (cannot decide)")
        tab = next(iter(tables))
        # keys excluded by the comprehension's filter
        excluded = {k.value for x in ast.walk(lst) if isinstance(x, ast.Compare) and len(x.ops) == 1 and isinstance(x.ops[0], (ast.NotEq, ast.NotIn)) for k in ast.walk(x) if isinstance(k, ast.Constant) and isinstance(k.value, str)}
        for key in ("trr", "edr"):
            if key in excluded:
                ctx.bad(rid, c, f"the left-over `{key}` file is excluded from the files removed before mdrun: the reader starts on the stale file of a crashed run", construct=f"remove list excludes {key}")
                continue
            stores = []
            for st in walk_local(f):
                if isinstance(st, ast.Assign) and len(st.targets) == 1 and isinstance(st.targets[0], ast.Subscript) and isinstance(st.targets[0].value, ast.Name) and st.targets[0].value.id == tab:
                    sl = st.targets[0].slice
                    if isinstance(sl, ast.Constant) and sl.value == key:
                        stores.append(cfg.node_of(st))
                    elif isinstance(sl, ast.Name):
                        L = next((p for p in loops_of(st) if isinstance(p, ast.For) and isinstance(p.target, ast.Name) and p.target.id == sl.id and isinstance(p.iter, (ast.Tuple, ast.List)) and any(isinstance(e, ast.Constant) and e.value == key for e in p.iter.elts)), None)
                        if L is not None:
                            stores.append(cfg.node_of(L))
            if not stores:
                raise AnalysisError(f"R-12.20: no store of {tab}[{key!r}] found in GromacsEngine._propagate_from (cannot decide)")
            if any(cfg.dominates(sn, at) and sn.id != at.id for sn in stores):
                ctx.ok(rid, c, f"the files removed before mdrun are listed after {tab}[{key!r}] was entered: a left-over .{key} is deleted")
            else:
                ctx.bad(rid, c, f"the list of files removed before mdrun (`{short(lst, 50)}`) is computed before {tab}[{key!r}] is entered into the table: a `<name>.{key}` left by a crashed run with the same pid / counter is not deleted, GromacsRunner opens it at once and streams the old run's frames - wrong first frame, length, end point and success flag", construct=f"remove list computed before {tab}[{key!r}] is known")


def _expanded_args(g, call, depth=3):
    """Source text of a call's arguments with locals replaced by the expressions they hold
    (`pgid = os.getpgid(p.pid); os.killpg(pgid, sig)` reads like the nested form)."""
    fl = flow_of(g)
    try:
        at = fl.cfg.node_of(call)
    except AnalysisError:
        return ast.unparse(call)
    out = []

    def expand(e, at_, d):
        if isinstance(e, ast.Name) and d > 0:
            try:
                e2, at2 = deref(fl, e, at_)
            except AnalysisError:
                return ast.unparse(e)
            if e2 is not e:
                return expand(e2, at2 if at2 is not None else at_, d - 1)
        if isinstance(e, ast.Call) and d > 0:
            return ast.unparse(e.func) + "(" + ", ".join(expand(a, at_, d - 1) for a in e.args) + ")"
        return ast.unparse(e)

    for a in list(call.args) + [k.value for k in call.keywords]:
        out.append(expand(a, at, depth))
    return ", ".join(out)


def r1221(ctx):
    """The external MD program is started as the leader of its own session (`preexec_fn=os.setsid`)
    because the configured command may be a wrapper (mpirun, a shell script) whose child does the
    work. Stopping it therefore addresses the process *group*: `os.killpg(os.getpgid(p.pid), sig)`
    or the shared helper terminate_process(p). `p.terminate()` / `p.kill()` / `os.kill(p.pid, ...)`
    reach the direct child only - the real MD process keeps running and keeps appending frames to
    the trajectory file the returned path references."""
    rid = "R-12.21"
    tree = ctx.tree
    n = 0
    for rel in ENGINE_FILES + [ENGBASE]:
        for m, q, f in tree.all_funcs([rel]):
            procs = set()
            for st in walk_local(f):
                if isinstance(st, ast.Assign) and isinstance(st.value, ast.Call) and last_name(st.value) == "Popen":
                    own = any((k.arg == "preexec_fn" and "setsid" in ast.unparse(k.value)) or (k.arg == "start_new_session" and isinstance(k.value, ast.Constant) and k.value.value is True) for k in st.value.keywords)
                    if own:
                        for t in st.targets:
                            procs.add(ast.unparse(t))
            if not procs:
                continue
            # the same object may be stopped in sibling methods of the class (self.running)
            scope = [f]
            c_ = class_of(f)
            if c_ is not None and any(p.startswith("self.") for p in procs):
                scope = [g for g in c_.body if isinstance(g, FUNC)]
            for g in scope:
                for c in walk_local(g):
                    if not isinstance(c, ast.Call):
                        continue
                    if isinstance(c.func, ast.Attribute) and c.func.attr in ("terminate", "kill", "send_signal") and ast.unparse(c.func.value) in procs:
                        n += 1
                        ctx.bad(rid, c, f"{getattr(g, '_fq', g.name)} stops the external program with `{short(c, 40)}`: the program was started as the leader of its own session because the command may be a wrapper, and this signal reaches the direct child only - the process that actually integrates keeps running and keeps writing to the trajectory the returned path references", construct=f"{g.name}: {short(c, 40)} on a session leader")
                    elif dotted(c.func) == "os.kill" and c.args and any(ast.unparse(c.args[0]).startswith(p + ".") for p in procs):
                        n += 1
                        ctx.bad(rid, c, f"{getattr(g, '_fq', g.name)} signals only the direct child (`{short(c, 40)}`) of a program started in its own session", construct=f"{g.name}: os.kill on a session leader")
                    elif dotted(c.func) == "os.killpg" and any(p in _expanded_args(g, c) for p in procs):
                        n += 1
                        ctx.ok(rid, c, f"{getattr(g, '_fq', g.name)}: the external program is stopped through its process group")
                    elif last_name(c) == "terminate_process" and c.args and ast.unparse(c.args[0]) in procs:
                        n += 1
                        ctx.ok(rid, c, f"{getattr(g, '_fq', g.name)}: stopped through terminate_process (process group)")
                    elif last_name(c) == "callback" and len(c.args) >= 2 and ast.unparse(c.args[0]).split(".")[-1] == "terminate_process" and ast.unparse(c.args[1]) in procs:
                        n += 1
                        ctx.ok(rid, c, f"{getattr(g, '_fq', g.name)}: terminate_process registered for the process group")
    if n < 4:
        raise AnalysisError(f"R-12.21: only {n} stop sites of session-leader processes found (expected >= 4)")
    tp = tree.func(ENGBASE, "terminate_process")
    if any(isinstance(c, ast.Call) and dotted(c.func) == "os.killpg" for c in walk_local(tp)):
        ctx.ok(rid, tp, "terminate_process signals the process group")
    else:
        ctx.bad(rid, tp, "terminate_process does not signal the process group (os.killpg): children of a wrapper command survive", construct="terminate_process without killpg")


def run(ctx):
    ctx.rule("R-12.9", "polling loops read the trajectory once more after the external program was observed finished (abstract interpretation over the loop's counter and the process state)", floor=2)
    ctx.rule("R-12.1", "every frame goes through add_to_path; stop tested before any further append; true edge ends all frame loops; returned success is add_to_path's", floor=5)
    ctx.rule("R-12.2", "frame reference = (trajectory file, per-frame counter / enumerate index), vel_rev = reverse", floor=5)
    ctx.rule("R-12.3", "order parameter computed from the same iteration's arrays; parallel frame queues consumed from the same end", floor=5)
    ctx.rule("R-12.4", "external process: signalled+waited on stop, return code raised, terminated on exception", floor=6)
    ctx.rule("R-12.5", "in-process integrators: first frame appended before the first integrator step", floor=1)
    ctx.rule("R-12.6", "velocity direction applied exactly once (no reverse-conditional negation before calculate_order)", floor=5)
    ctx.rule("R-12.7", "every sleeping wait loop observes the external process", floor=6)
    ctx.rule("R-12.8", "frames handed to the engines by the on-the-fly readers do not share arrays (a frame's box and coordinates are its own)", floor=3)
    ctx.rule("R-12.15", "the configuration an engine starts from after a velocity reversal is the phase point itself: _reverse_velocities writes positions, box and identities exactly as read (shared with C19 R-19.5)", floor=5)
    ctx.rule("R-12.27", "the system carries the direction of the coming propagation: EngineBase.propagate stores system.vel_rev = reverse on every path to _propagate_from", floor=1)
    ctx.attempt(direction_flag_set, ctx, "R-12.27")
    ctx.rule("R-12.26", "the box handed to the order parameter for every TRR frame (and written into the next shooting point) is the frame's box: the flattened box matrix has the element order of the g96 BOX record (shared with C19 R-19.6)", floor=1)
    from . import c19 as _c19p
    from .shared import RuleProxy as _RP12p
    ctx.attempt(_c19p.r196, _RP12p(ctx, "R-12.26", " - the order stored for a frame is then not the one of the frame's own (triclinic) box and the path stops at the wrong frame"))
    ctx.rule("R-12.25", "the order stored for a frame of a backward propagation is the order of that frame: calculate_order negates the velocities it finally uses under vel_rev, whether handed in or re-read (shared with C20 R-20.5)", floor=1)
    from . import c20 as _c20o
    ctx.attempt(_c20o.r205, ctx, "R-12.25")
    ctx.rule("R-12.23", "in-process engines: the item the loop starts with (the given phase point) is frame 0 for every value of subcycles - the storing test is `counter % subcycles == 0` on the bare item counter starting at 0", floor=2)
    ctx.attempt(frame_cadence, ctx, "R-12.23")
    ctx.rule("R-12.24", "in-process engines: one energy entry per stored frame - every append to the lists handed to update_energies is controlled by the storing test of the frames", floor=2)
    ctx.attempt(energies_per_frame, ctx, "R-12.24")
    ctx.rule("R-12.22", "a CP2K / LAMMPS frame handed to the engine is complete: every parse of a line of the growing file is dominated by a completeness guard whose failing edge returns (shared with C13 R-13.1 / R-13.2)", floor=6)
    from . import c13 as _c13b
    from .shared import RuleProxy as _RP12n
    for _rf in _c13b.readers(ctx.tree):
        ctx.attempt(_c13b.text_reader, _RP12n(ctx, "R-12.22", " (the engine appends a frame whose last coordinate was cut short by the program's write buffer: the returned trajectory is not the one the program ran)"), _rf)
    ctx.rule("R-12.21", "the external program, started as a session leader, is stopped through its process group (os.killpg / terminate_process), never through the Popen object alone", floor=4)
    ctx.attempt(r1221, ctx)
    ctx.rule("R-12.20", "GROMACS: left-over .trr / .edr of the coming run's name are removed before mdrun starts (the remove list is computed after those names are in the output-file table)", floor=2)
    ctx.attempt(r1220, ctx)
    ctx.rule("R-12.19", "the shared stop rule reports success exactly for a frame strictly outside the interfaces (order < left, order > right), once per side", floor=2)
    ctx.attempt(r1219, ctx)
    ctx.rule("R-12.14", "step budget: every engine runs path.maxlen * subcycles MD steps (sibling agreement, monomial form)", floor=5)
    ctx.rule("R-12.13", "the TRR frames the GROMACS engine consumes while mdrun runs are complete frames: reads dominated by fresh size guards, bytes_read advanced by each returned count (shared with C13 R-13.3)", floor=3)
    ctx.rule("R-12.12", "frame indices of configuration references are never tested by truthiness (index 0 is a frame)", floor=5)
    ctx.rule("R-12.11", "no `for` variable of the engine modules is read after its loop has ended", floor=40)
    ctx.rule("R-12.10", "positional role agreement in the propagation functions: unpacked names / positional arguments sit at the position where the callee returns / expects that name", floor=15)
    ctx.rule("R-12.17", "frames assembled from several on-the-fly readers: every reader result is added to a buffer that persists across polls (a surplus frame waits for its partner)", floor=2)
    ctx.rule("R-12.16", "calculate_order's all-or-nothing contract: a per-frame call hands over xyz, vel and box that are all present (a value the function treats as optional would make the method re-read the starting configuration)", floor=6)
    engs = engines(ctx.tree)
    armed = [e for e in engs if e[0].rel in ENGINE_FILES]
    if len(armed) < 5:
        raise AnalysisError(f"C12: only {len(armed)} armed engine implementations of _propagate_from found (expected 5)")
    for m, cname, c, f in engs:
        if m.rel not in ENGINE_FILES:
            ctx.note(f"{cname} ({m.rel}) parsed; not armed (not in the property's engine list)")
            continue
        info = r121(ctx, m, cname, f)
        if info is None:
            continue
        r122(ctx, m, cname, f, info)
        r123(ctx, m, cname, f, info)
        r125(ctx, m, cname, f, info)
        r126(ctx, m, cname, f, info)
        ctx.attempt(r129, ctx, m, cname, f)
        ctx.attempt(r1216, ctx, m, cname, f)
        ctx.attempt(r1217, ctx, m, cname, f)
    ctx.attempt(r124, ctx)
    ctx.attempt(r124_rc_tests, ctx)
    ctx.attempt(r1214, ctx)
    ctx.rule("R-12.18", "per-iteration data of the engine loops (forces, energies, frames) is not taken from an earlier iteration: a local defined only on some paths of a loop is not read on all of them", floor=20)
    from .shared import stale_iteration_value
    ctx.attempt(stale_iteration_value, ctx, "R-12.18", list(ENGINE_FILES) + [ENGBASE, ENGPARTS], None, " (e.g. the integrator is handed the forces of an earlier MD step: the trajectory is no longer the one the equations of motion generate, backward propagation does not retrace forward)")
    from . import c19
    from .shared import RuleProxy as _RP
    ctx.attempt(c19.r195, _RP(ctx, "R-12.15", " (a reversed propagation then starts from a frame that is not the phase point: other box / atoms than the frame it references)"))
    ctx.attempt(r127, ctx)
    # frames queued by the on-the-fly readers own their arrays (box/coordinates of frame k are frame k's)
    from .c13 import readers
    from .shared import handed_out_buffers
    for rf in readers(ctx.tree):
        ctx.attempt(handed_out_buffers, ctx, "R-12.8", rf, "each queued frame has its own coordinate/box arrays")
    from .shared import role_agreement, stale_loop_variable, frame_index_truthiness, RuleProxy
    from . import c13
    ctx.attempt(c13.trr_reader, RuleProxy(ctx, "R-12.13", " (the GROMACS engine would raise on / append a frame that mdrun has not finished writing, although the program ran fine)"))
    ctx.attempt(frame_index_truthiness, ctx, "R-12.12", ENGINE_FILES + [ENGBASE], " (the configuration propagated from / recomputed is not the referenced frame)")
    ctx.attempt(stale_loop_variable, ctx, "R-12.11", ENGINE_FILES + [ENGBASE, ENGPARTS], None, " (the frame / file / atom handled is the last one of an earlier loop)")
    P12 = ("_propagate_from", "propagate", "add_to_path", "_extract_frame", "dump_phasepoint", "dump_frame", "dump_config", "calculate_order", "get_gromacs_frames", "read_remaining_trr")
    ctx.attempt(role_agreement, ctx, "R-12.10", ENGINE_FILES + [ENGBASE], lambda q, f: f.name in P12, " (the frame stored / the flags returned are not the ones of this step)")


VARIANTS = [
    B("c12-direction-flag-not-set-before-propagation", ENGBASE, "        system.vel_rev = reverse\n        # Propagate from this point:", "        # Propagate from this point:", "R-12.27", control=True, why="seeded C09_p"),
    B("c12-box-list-yz-zy-exchanged", ENGPARTS, "            matrix[1, 2],\n            matrix[2, 0],\n            matrix[2, 1],\n", "            matrix[2, 1],\n            matrix[2, 0],\n            matrix[1, 2],\n", "R-12.26", control=True, why="seeded C12_p"),
    B("c12-direction-applied-to-reread-velocities-only", ENGBASE, "            vel = out[1]\n", "            vel = out[1] * -1.0 if system.vel_rev else out[1]\n", "R-12.25", control=True, also=[(ENGBASE, "            system.vel = vel * -1.0 if system.vel_rev else vel", "            system.vel = vel")], why="seeded C12_o"),
    B("c12-turtle-frames-at-the-end-of-each-block", TURTLE, "            if (i) % (self.subcycles) == 0:", "            if (i + 1) % (self.subcycles) == 0:", "R-12.23", control=True, why="seeded C09_n"),
    B("c12-ase-frames-counted-from-one", ASE, "        for i in range(self.subcycles * path.maxlen):", "        for i in range(1, self.subcycles * path.maxlen + 1):", "R-12.23"),
    K("c12-keep-turtle-storing-test-negated", TURTLE, "            if (i) % (self.subcycles) == 0:", "            if not i % self.subcycles != 0:"),
    B("c12-ase-energies-recorded-every-md-step", ASE, "            if (i) % (self.subcycles) == 0:\n                ekin.append(atoms.get_kinetic_energy())\n                vpot.append(self.calc.results[\"energy\"])\n", "            ekin.append(atoms.get_kinetic_energy())\n            vpot.append(energy)\n            if (i) % (self.subcycles) == 0:\n", "R-12.24", control=True, why="seeded C11_n"),
    K("c12-keep-ase-energy-from-the-local", ASE, "                vpot.append(self.calc.results[\"energy\"])\n", "                vpot.append(energy)\n"),
    B("c12-xyz-line-accepted-by-column-count-alone", ENGPARTS, 'if len(spl) != 4 or line[-1] != "\\n":', 'if len(spl) != 4 and line[-1] != "\\n":', "R-12.22", control=True, why="seeded C12_n"),
    B("c12-lammps-stopped-through-popen-object", LAMMPS, "                                os.killpg(os.getpgid(exe.pid), signal.SIGTERM)", "                                exe.terminate()", "R-12.21", control=True, why="seeded C12_m"),
    B("c12-gromacs-remove-list-before-names", GROMACS, '        for key in ("cpt", "edr", "log", "trr"):\n            out_files[key] = f"{name}.{key}"\n        # Remove some of these files if present (e.g. left over from a\n        # crashed simulation). This is so that GromacsRunner will not\n        # start reading a .trr left from a previous simulation.\n\n        remove = [val for key, val in out_files.items() if key != "tpr"]\n', '        remove = [val for key, val in out_files.items() if key != "tpr"]\n        for key in ("cpt", "edr", "log", "trr"):\n            out_files[key] = f"{name}.{key}"\n', "R-12.20", control=True, why="seeded C12_k"),
    B("c12-gromacs-stale-trr-kept", GROMACS, '        remove = [val for key, val in out_files.items() if key != "tpr"]\n', '        remove = [val for key, val in out_files.items() if key not in ("tpr", "trr")]\n', "R-12.20"),
    K("c12-keep-stop-tests-on-a-local", ENGBASE, "        if path.phasepoints[-1].order[0] < left:\n", "        last_order = path.phasepoints[-1].order[0]\n        if left > last_order:\n"),
    B("c12-stop-on-the-left-interface", ENGBASE, "        if path.phasepoints[-1].order[0] < left:", "        if path.phasepoints[-1].order[0] <= left:", "R-12.19", control=True, why="seeded C12_j"),
    B("c12-stop-on-the-right-interface", ENGBASE, "        elif path.phasepoints[-1].order[0] > right:", "        elif path.phasepoints[-1].order[0] >= right:", "R-12.19"),
    K("c12-keep-stop-tests-mirrored", ENGBASE, "        if path.phasepoints[-1].order[0] < left:", "        if left > path.phasepoints[-1].order[0]:"),
    K("c12-keep-stop-test-negated", ENGBASE, "        elif path.phasepoints[-1].order[0] > right:", "        elif not path.phasepoints[-1].order[0] <= right:"),
    K("c12-keep-ase-budget-local", ASE, "        for i in range(self.subcycles * path.maxlen):", "        n_md_steps = self.subcycles * path.maxlen\n        for i in range(n_md_steps):"),
    B("c12-ase-budget-local-one-short", ASE, "        for i in range(self.subcycles * path.maxlen):", "        n_md_steps = self.subcycles * (path.maxlen - 1)\n        for i in range(n_md_steps):", "R-12.14"),
    B("c12-ase-forces-only-read-for-written-frames", ASE, "            energy = self.calc.results[\"energy\"]\n            forces = self.calc.results[\"forces\"]\n            stress = self.calc.results.get(\"stress\", None)\n            if (i) % (self.subcycles) == 0:\n", "            if (i) % (self.subcycles) == 0:\n                energy = self.calc.results[\"energy\"]\n                forces = self.calc.results[\"forces\"]\n                stress = self.calc.results.get(\"stress\", None)\n", "R-12.18", control=True, why="seeded C12_i"),
    B("c12-cp2k-frames-rebound-per-poll", CP2K, "                    pos_traj += pos_reader.read_and_process_content()\n                    vel_traj += vel_reader.read_and_process_content()", "                    pos_traj = pos_reader.read_and_process_content()\n                    vel_traj = vel_reader.read_and_process_content()", "R-12.17", control=True, why="seeded C12_g"),
    K("c12-keep-cp2k-frames-extend", CP2K, "                    pos_traj += pos_reader.read_and_process_content()\n                    vel_traj += vel_reader.read_and_process_content()", "                    pos_traj.extend(pos_reader.read_and_process_content())\n                    vel_traj.extend(vel_reader.read_and_process_content())"),
    B("c12-turtle-order-from-optional-box", TURTLE, "                order = self.calculate_order(\n                    system,\n                    xyz=tmd_system.particles.pos,\n                    vel=tmd_system.particles.vel,\n                    box=tmd_system.box.length,\n                )", "                order = self.calculate_order(\n                    system, xyz=pos, vel=vel, box=box\n                )", "R-12.16", control=True, why="seeded C12_f"),
    K("c12-keep-turtle-order-from-written-arrays", TURTLE, "                order = self.calculate_order(\n                    system,\n                    xyz=tmd_system.particles.pos,\n                    vel=tmd_system.particles.vel,\n                    box=tmd_system.box.length,\n                )", "                order = self.calculate_order(\n                    system, xyz=pos, vel=vel, box=tmd_system.box.length\n                )", why="arrays refreshed in place in this iteration are this frame's data"),
    B("c12-gromacs-reverse-writes-template", GROMACS, "        write_gromos96_file(outfile, txt, xyz, -1 * vel)", "        write_gromos96_file(outfile, self.top, xyz, -1 * vel)", "R-12.15", why="seeded C12_e"),
    B("c12-ase-one-frame-short", ASE, "        for i in range(self.subcycles * path.maxlen):", "        for i in range(self.subcycles * (path.maxlen - 1)):", "R-12.14", control=True, why="seeded C09_e"),
    B("c12-lammps-nsteps-without-subcycles", LAMMPS, '"infretis_nsteps": path.maxlen * self.subcycles,', '"infretis_nsteps": path.maxlen,', "R-12.14"),
    K("c12-keep-ase-budget-commuted", ASE, "        for i in range(self.subcycles * path.maxlen):", "        for i in range(path.maxlen * self.subcycles):"),
    B("c12-trr-bytes-counted-per-frame", GROMACS, "                    if header is not None:\n                        self.bytes_read += new_bytes\n                        self.header_size = new_bytes", "                    if header is not None:\n                        self.header_size = new_bytes", "R-12.13", control=True, why="seeded C12_d (= C13_c)",
      also=[(GROMACS, "                                    self.bytes_read += new_bytes\n                                    yield data", "                                    self.bytes_read += (\n                                        self.header_size + new_bytes\n                                    )\n                                    yield data")]),
    B("c12-dump-config-idx-truthiness", ENGBASE, "        if idx is None:\n            if pos_file != out_file:\n                self._copyfile(pos_file, out_file)\n        else:\n            logger.debug(\"Config: %s\", (config,))\n            self._extract_frame(pos_file, idx, out_file)\n", "        if idx:\n            logger.debug(\"Config: %s\", (config,))\n            self._extract_frame(pos_file, idx, out_file)\n        elif pos_file != out_file:\n            self._copyfile(pos_file, out_file)\n", "R-12.12", control=True),
    B("c12-lammps-masses-after-loop", LAMMPS, "            if not spl:\n                continue\n            # get number of atoms\n            if len(spl) == 2 and \"atoms\" == spl[1]:\n                n_atoms = int(spl[0])", "            if not spl:\n                continue\n        for _ in range(1):\n            # get number of atoms\n            if len(spl) == 2 and \"atoms\" == spl[1]:\n                n_atoms = int(spl[0])", "R-12.11", control=True),
    # ---- R-12.10
    B("c12-cp2k-unpack-permuted", CP2K, "        xyz, vel, box, atoms = self._read_configuration(initial_conf)\n        if box is None:\n            box, _ = read_cp2k_box(self.input_files[\"template\"])\n        # Add CP2K input for N steps:", "        vel, xyz, box, atoms = self._read_configuration(initial_conf)\n        if box is None:\n            box, _ = read_cp2k_box(self.input_files[\"template\"])\n        # Add CP2K input for N steps:", "R-12.10", control=True),
    B("c12-cp2k-flags-permuted", CP2K, "                        status, success, stop, add = self.add_to_path(", "                        success, status, stop, add = self.add_to_path(", "R-12.10"),
    B("c12-base-propagate-swapped", ENGBASE, "success, status = self._propagate_from(", "status, success = self._propagate_from(", "R-12.10"),
    K("c12-keep-unpack-renamed", CP2K, "                        status, success, stop, add = self.add_to_path(", "                        status, success, stop, _added = self.add_to_path("),
    # ---- R-12.1
    B("c12-turtle-ignore-stop", TURTLE, "                    break\n                step_nr += 1", "                    pass\n                step_nr += 1", "R-12.1", control=True),
    B("c12-cp2k-wrong-interface", CP2K, "        left, _, right = interfaces\n        logger.debug(\"Adding input files for CP2K\")", "        left, right, _ = interfaces\n        logger.debug(\"Adding input files for CP2K\")", "R-12.1"),
    B("c12-lammps-outer-loop-continues", LAMMPS, "                            iterations_after_stop = 2\n", "                            iterations_after_stop = 1\n", "R-12.1"),
    B("c12-lammps-outer-flag-dropped", LAMMPS, "                            iterations_after_stop = 2\n", "", "R-12.1"),
    B("c12-turtle-constant-success", TURTLE, "        path.update_energies(ekin, vpot)\n        return success, status", "        path.update_energies(ekin, vpot)\n        return True, status", "R-12.1"),
    B("c12-ase-success-overwritten", ASE, "        path.update_energies(ekin, vpot)\n        return success, status", "        path.update_energies(ekin, vpot)\n        success = path.length > 1\n        return success, status", "R-12.1"),
    B("c12-gromacs-direct-append", GROMACS, "                status, success, stop, _ = self.add_to_path(\n                    path, phase_point, left, right\n                )", "                path.append(phase_point)\n                status, success, stop, _ = self.add_to_path(\n                    path, phase_point, left, right\n                )", "R-12.1"),
    B("c12-cp2k-returncode-positive-only", CP2K, "            if return_code != 0 and not cp2k_was_terminated:", "            if return_code > 0 and not cp2k_was_terminated:", "R-12.4", why="seeded C12_c"),
    B("c12-lammps-poll-loop-nonneg", LAMMPS, "            if exe.poll() is None or exe.returncode == 0:", "            if exe.poll() is None or exe.returncode <= 0:", "R-12.4"),
    K("c12-keep-returncode-flipped", CP2K, "            if return_code != 0 and not cp2k_was_terminated:", "            if 0 != return_code and not cp2k_was_terminated:"),
    K("c12-keep-returncode-notin", LAMMPS, "            if return_code != 0 and not lammps_was_terminated:", "            if return_code not in (0,) and not lammps_was_terminated:"),
    # ---- R-12.2
    B("c12-ase-index-off-by-one", ASE, '"config": (traj_file, step_nr),', '"config": (traj_file, step_nr + 1),', "R-12.2", control=True),
    B("c12-turtle-enumerate-index", TURTLE, '"config": (traj_file, step_nr),', '"config": (traj_file, i),', "R-12.2"),
    B("c12-lammps-velrev-constant", LAMMPS, '"vel_rev": reverse,', '"vel_rev": False,', "R-12.2"),
    B("c12-cp2k-counter-per-poll", CP2K, "                        step_nr += 1\n                    sleep(self.sleep)", "                    step_nr += 1\n                    sleep(self.sleep)", "R-12.2"),
    B("c12-gromacs-wrong-file", GROMACS, '"config": (trr_file, i),', '"config": (edr_file, i),', "R-12.2"),
    B("c12-turtle-counter-by-two", TURTLE, "                    break\n                step_nr += 1", "                    break\n                step_nr += 2", "R-12.2"),
    # ---- R-12.3
    B("c12-lammps-box-from-back", LAMMPS, "box = box_trajectory.pop(0)", "box = box_trajectory.pop()", "R-12.3", control=True, why="pre-fix D2"),
    B("c12-cp2k-vel-from-back", CP2K, "vel = vel_traj.pop(0)", "vel = vel_traj.pop()", "R-12.3"),
    B("c12-cp2k-bound-one-queue", CP2K, "range(min(len(pos_traj), len(vel_traj)))", "range(len(pos_traj))", "R-12.3"),
    B("c12-lammps-initial-arrays", LAMMPS, "                            system, xyz=pos, vel=vel, box=box\n", "                            system, xyz=xyzi, vel=veli, box=box\n", "R-12.3"),
    # ---- R-12.4
    B("c12-lammps-returncode-not-raised", LAMMPS, "                raise RuntimeError(msg)\n        if (return_code is not None) and (\n            return_code == 0 or lammps_was_terminated", "                logger.error(msg)\n        if (return_code is not None) and (\n            return_code == 0 or lammps_was_terminated", "R-12.4"),
    B("c12-cp2k-not-killed", CP2K, "                                os.killpg(os.getpgid(exe.pid), signal.SIGTERM)\n", "", "R-12.4", control=True),
    B("c12-cp2k-not-waited", CP2K, "                                exe.wait(timeout=360)\n", "", "R-12.4"),
    B("c12-gromacs-exit-does-not-stop", GROMACS, '        """Stop execution and close file for a context manager."""\n        self.stop()', '        """Stop execution and close file for a context manager."""\n        self.close()', "R-12.4"),
    B("c12-gromacs-failure-not-raised", GROMACS, "                if poll != 0:\n                    logger.error(\"STDOUT, see file: %s\", self.stdout_name)\n                    logger.error(\"STDERR, see file: %s\", self.stderr_name)\n                    raise RuntimeError(\"Error in GROMACS execution.\")",
      "                if poll != 0:\n                    logger.error(\"STDOUT, see file: %s\", self.stdout_name)\n                    logger.error(\"STDERR, see file: %s\", self.stderr_name)", "R-12.4"),
    B("c12-gromacs-kill-unguarded-dropped", GROMACS, "                os.killpg(os.getpgid(self.running.pid), signal.SIGTERM)\n", "                pass\n", "R-12.4"),
    # ---- R-12.5
    B("c12-ase-step-first", ASE, '        for i in range(self.subcycles * path.maxlen):\n            energy = self.calc.results["energy"]', '        for i in range(self.subcycles * path.maxlen):\n            dyn.step()\n            energy = self.calc.results["energy"]', "R-12.5", control=True),
    # ---- R-12.6
    B("c12-gromacs-double-negation", GROMACS, '                system.box = box_matrix_to_list(data["box"], full=True)\n                order = self.calculate_order(', '                system.box = box_matrix_to_list(data["box"], full=True)\n                if system.vel is not None and reverse:\n                    system.vel *= -1\n                order = self.calculate_order(', "R-12.6", control=True, why="pre-fix D11"),
    B("c12-lammps-conditional-negation", LAMMPS, "                        vel = posvel[:, 3:]\n", "                        vel = -posvel[:, 3:] if reverse else posvel[:, 3:]\n", "R-12.6"),
    B("c12-turtle-negated-arg", TURTLE, "                    vel=tmd_system.particles.vel,\n                    box=tmd_system.box.length,\n                )\n                msg_file.write(\n                    f'{step_nr}", "                    vel=-tmd_system.particles.vel,\n                    box=tmd_system.box.length,\n                )\n                msg_file.write(\n                    f'{step_nr}", "R-12.6"),
    # ---- R-12.7
    B("c12-gromacs-data-wait-without-poll", GROMACS, "                                if (\n                                    self.check_poll() is not None\n                                    and os.path.getsize(self.trr_file)\n                                    < self.bytes_read + self.data_size\n                                ):\n                                    self.stop_read = True\n                                    break\n", "", "R-12.7", why="pre-fix F12.3"),
    B("c12-lammps-wait-without-poll", LAMMPS, '                sleep(self.sleep)\n                if exe.poll() is not None:\n                    logger.debug("LAMMPS execution stopped")\n                    break\n', "                sleep(self.sleep)\n", "R-12.7", control=True),
    B("c12-gromacs-start-without-poll", GROMACS, '                sleep(self.SLEEP)\n                poll = self.check_poll()\n                if poll is not None:\n                    logger.debug("GROMACS execution stopped")\n                    break\n', "                sleep(self.SLEEP)\n", "R-12.7"),
    B("c12-lammps-shared-box-buffer", ENGPARTS, "            coordinate_snapshot = np.zeros((N_atoms, 6), dtype=np.float64)\n            box_snapshot = np.zeros((3, 3), dtype=np.float64)\n    return trajectory, box", "            coordinate_snapshot = np.zeros((N_atoms, 6), dtype=np.float64)\n    return trajectory, box", "R-12.8", control=True, why="seeded C12_a"),
    B("c12-lammps-no-cleanup-on-exception", LAMMPS, "            # do not leave the program running if an exception ends this block\n            cleanup.callback(terminate_process, exe)\n", "", "R-12.4", control=True, why="pre-fix F12.2"),
    B("c12-cleanup-does-not-terminate", ENGBASE, "    if exe.poll() is None:\n        os.killpg(os.getpgid(exe.pid), signal.SIGTERM)\n        exe.wait(timeout=360)\n\n\ndef counter", "    if exe.poll() is None:\n        logger.debug(\"still running\")\n\n\ndef counter", "R-12.4"),
    B("c12-lammps-final-read-skipped", LAMMPS, "                while exe.poll() is None or iterations_after_stop <= 1:", "                while exe.poll() is None or iterations_after_stop < 1:", "R-12.9", control=True, why="seeded C12_b"),
    B("c12-cp2k-no-extra-iteration", CP2K, "                while exe.poll() is None or iterations_after_stop <= 1:", "                while exe.poll() is None:", "R-12.9"),
    # ---- preserving
    K("c12-keep-turtle-plain-increment", TURTLE, "                    break\n                step_nr += 1", "                    break\n                step_nr = step_nr + 1"),
    K("c12-keep-lammps-index-interfaces", LAMMPS, "        left, _, right = interfaces\n        initial_conf", "        left, right = interfaces[0], interfaces[2]\n        initial_conf"),
    K("c12-keep-cp2k-wait-timeout", CP2K, "exe.wait(timeout=360)", "exe.wait(timeout=600)"),
    K("c12-keep-cp2k-pop-order", CP2K, "                        pos = pos_traj.pop(0)\n                        vel = vel_traj.pop(0)\n", "                        vel = vel_traj.pop(0)\n                        pos = pos_traj.pop(0)\n"),
    K("c12-keep-lammps-counter-lt-two", LAMMPS, "                while exe.poll() is None or iterations_after_stop <= 1:", "                while exe.poll() is None or iterations_after_stop < 2:"),
    K("c12-keep-ase-rename-stop", ASE, "status, success, stop, add = self.add_to_path(", "status, success, finished, add = self.add_to_path(", also=[(ASE, "                if stop:\n", "                if finished:\n")]),
    K("c12-keep-gromacs-rename-index", GROMACS, "            for i, data in enumerate(gro.get_gromacs_frames()):\n                # Update the configuration file:\n                system.set_pos((trr_file, i))",
      "            for i, data in enumerate(gro.get_gromacs_frames()):\n                # Update the configuration file:\n                frame_ref = (trr_file, i)\n                system.set_pos(frame_ref)"),
    K("c12-keep-lammps-stop-via-not", LAMMPS, "                        if stop:\n                            # process may have terminated since we last checked", "                        if stop is True or stop:\n                            # process may have terminated since we last checked"),
    K("c12-keep-turtle-snapshot-local", TURTLE, '                snapshot = {\n                    "order": order,\n                    "config": (traj_file, step_nr),', '                frame_ref = (traj_file, step_nr)\n                snapshot = {\n                    "order": order,\n                    "config": frame_ref,'),
]
