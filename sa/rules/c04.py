"""C04 - fractional weights are conserved and accounted for exactly once.

Life cycle of a path's accumulator: created zero -> accumulates only while
live and idle -> archived exactly once on replacement and removed from the
live table.
"""

from __future__ import annotations

import ast

from ..cfg import cfg_of
from ..flow import flow_of, path_of
from ..loader import FUNC, AnalysisError, dotted, last_name, loc, short, walk_local
from ..util import REPEX, SETUP, all_calls, is_self_attr, keys_chain, last_key, loops_of
from ..variants import B, K

EXPLANATION = (
    "(R-4.1) who may write traj_data[...]['frac']: creation as a zero vector "
    "for a newly stored path, restore from config['current']['frac'] at "
    "load time, and one += in treat_output; (R-4.2) that += is dominated by "
    "the idle guard `live not in <locked paths>` with the locked paths taken "
    "after the finished job's add_traj calls, indexed by the same loop index "
    "as the row of the P matrix that is added; (R-4.3) write_to_pathens is "
    "called only from treat_output under status == 'ACC' with the list "
    "recorded at pick time, every row written removes the path from "
    "traj_data, and the archive precedes the commit; (R-4.4) restart round "
    "trip of accumulators = C06 R-6.1 (cross-reference)."
)
NOT_DECIDED = "that each step adds exactly one unit per idle column (double stochasticity of P, C02) and the numeric column alignment of the slice"
ASSUMPTIONS = ["the P matrix rows/columns of busy ensembles are zero (C02, not applicable here)"]


def _is_traj_frac(t):
    """store target  <x>.traj_data[..]['frac']  (not config['current']['frac'])"""
    if last_key(t) != "frac":
        return False
    txt = ast.unparse(t)
    return "traj_data" in txt and "config" not in txt


def r41(ctx):
    rid = "R-4.1"
    tree = ctx.tree
    n = 0
    for m, q, f in tree.all_funcs():
        if m.rel.startswith("infretis/tools/"):
            continue
        for st in walk_local(f):
            if isinstance(st, (ast.Assign, ast.AugAssign)):
                tgts = st.targets if isinstance(st, ast.Assign) else [st.target]
                for t in tgts:
                    if _is_traj_frac(t):
                        n += 1
                        if m.rel == REPEX and f.name == "treat_output" and isinstance(st, ast.AugAssign) and isinstance(st.op, ast.Add):
                            ctx.ok(rid, st, "the accumulating += in treat_output")
                        else:
                            ctx.bad(rid, st, f"the accumulated weights of a path are written in {q} (allowed: zero at creation, restore at load, one += in treat_output)")
                    # dict literal stored into traj_data[...]
                    if isinstance(st, ast.Assign) and isinstance(st.value, ast.Dict) and "traj_data" in ast.unparse(t) and "config" not in ast.unparse(t):
                        for k, v in zip(st.value.keys, st.value.values):
                            if isinstance(k, ast.Constant) and k.value == "frac":
                                n += 1
                                if m.rel == REPEX and f.name == "treat_output":
                                    if isinstance(v, ast.Call) and last_name(v) == "zeros":
                                        ctx.ok(rid, st, "new path: accumulator created as a zero vector")
                                    else:
                                        ctx.bad(rid, st, "a newly stored path does not start with a zero accumulator: it inherits weight it never earned")
                                elif m.rel == REPEX and f.name == "load_paths":
                                    fl = flow_of(f)
                                    deps = fl.deps(v, fl.cfg.node_of(st))
                                    if any(k2 in ("free", "param") and "['current']['frac']" in key for k2, key in deps):
                                        ctx.ok(rid, st, "restore: accumulator taken from config['current']['frac'] (zeros when absent)")
                                    else:
                                        ctx.bad(rid, st, "load_paths does not restore the accumulator from config['current']['frac']")
                                else:
                                    ctx.bad(rid, st, f"a path record with accumulated weights is created in {q}")
    if n < 4:
        raise AnalysisError(f"R-4.1: only {n} writers of ['frac'] found")


def r42(ctx):
    rid = "R-4.2"
    tree = ctx.tree
    f = tree.func(REPEX, "REPEX_state.treat_output")
    fl = flow_of(f)
    cfg = fl.cfg
    accs = [st for st in walk_local(f) if isinstance(st, ast.AugAssign) and _is_traj_frac(st.target)]
    if not accs:
        raise AnalysisError("R-4.2: accumulating statement not found")
    adds = [cfg.node_of(c) for c in walk_local(f) if isinstance(c, ast.Call) and is_self_attr(c.func, "add_traj")]
    for st in accs:
        at = cfg.node_of(st)
        inner = st.target.value  # traj_data[live]
        live = inner.slice if isinstance(inner, ast.Subscript) else None
        ok = True
        # ---- where do (row index, credited path) come from?
        loops = [l for l in loops_of(st) if isinstance(l, ast.For)]
        pairing = None   # (idx name, live name, how, filter collection or None)
        for l in loops:
            it = l.iter
            tgt = l.target
            if not (isinstance(tgt, ast.Tuple) and len(tgt.elts) == 2 and all(isinstance(e, ast.Name) for e in tgt.elts)):
                continue
            idx, lv = tgt.elts[0].id, tgt.elts[1].id
            if live is None or ast.unparse(live) != lv:
                continue
            if isinstance(it, ast.Call) and dotted(it.func) == "enumerate" and it.args and isinstance(it.args[0], ast.Call) and is_self_attr(it.args[0].func, "live_paths"):
                pairing = (idx, lv, "enumerate(live_paths())", None)
            else:
                # a pre-filtered list of (index, path) pairs built from enumerate(self.live_paths())
                for kind, node, sat, extra in fl.sources(it, cfg.node_of(l)):
                    if kind == "expr" and isinstance(node, (ast.ListComp, ast.GeneratorExp)) and len(node.generators) == 1:
                        g = node.generators[0]
                        if (isinstance(g.iter, ast.Call) and dotted(g.iter.func) == "enumerate" and g.iter.args and isinstance(g.iter.args[0], ast.Call)
                                and is_self_attr(g.iter.args[0].func, "live_paths") and isinstance(node.elt, ast.Tuple) and ast.unparse(node.elt) == ast.unparse(g.target)):
                            filt = None
                            for c in g.ifs:
                                if isinstance(c, ast.Compare) and isinstance(c.ops[0], ast.NotIn) and ast.unparse(c.left) == ast.unparse(g.target.elts[1]):
                                    filt = (c.comparators[0], sat)
                            pairing = (idx, lv, "filtered enumerate(live_paths())", filt)
                if pairing is None and isinstance(it, ast.Call) and dotted(it.func) == "enumerate":
                    pairing = (idx, lv, "enumerate of something else", None)
        if pairing is None or pairing[2] == "enumerate of something else":
            ctx.bad(rid, st, "the row of the P matrix that is added is not indexed by the position of the credited path in self.live_paths() "
                    "(the index comes from a different / filtered enumeration): idle paths after a busy one receive another path's row",
                    construct=short(st, 90))
            continue
        idx, lv = pairing[0], pairing[1]
        v = ast.unparse(st.value)
        if not (("_last_prob" in v or "self.prob" in v) and f"[{idx}" in v.replace(" ", "")):
            ctx.bad(rid, st, "the accumulated row is not the P-matrix row of the same live-path index that is credited")
            ok = False
        # ---- idle guard
        coll = None
        for e, t, bn in cfg.guards(at):
            if isinstance(e, ast.Compare) and isinstance(e.ops[0], (ast.NotIn, ast.In)) and ast.unparse(e.left) == lv:
                if (isinstance(e.ops[0], ast.NotIn) and t) or (isinstance(e.ops[0], ast.In) and not t):
                    tn = [x for x in cfg.nodes if x.kind == "test" and x.ast is bn.ast][0]
                    coll = (e.comparators[0], tn)
        if coll is None and pairing[3] is not None:
            coll = pairing[3]
        if coll is None:
            ctx.bad(rid, st, "weights are accumulated without the idle guard `live not in <locked paths>`: busy paths receive weight")
            continue
        srcs = fl.sources(coll[0], coll[1])
        from_locked = bool(srcs) and all(k == "expr" and isinstance(n, ast.Call) and is_self_attr(n.func, "locked_paths") for k, n, _, _ in srcs)
        if not from_locked:
            ctx.bad(rid, st, "the idle guard does not test against self.locked_paths()")
            ok = False
        else:
            for k, n, snode, _ in srcs:
                if any(cfg.reaches(snode, a) for a in adds):
                    ctx.bad(rid, st, "the locked-path list used by the idle guard is taken before the finished job's add_traj calls: the just-finished (now idle) paths are still treated as busy, or the replaced path still counts as live")
                    ok = False
        if ok:
            ctx.ok(rid, st, f"+= under `live not in locked_paths()` (taken after add_traj); row index and credited path come from one {pairing[2]}")


def r43(ctx):
    rid = "R-4.3"
    tree = ctx.tree
    ncalls = 0
    for m, f, c in all_calls(tree):
        if last_name(c) != "write_to_pathens":
            continue
        ncalls += 1
        if not (m.rel == REPEX and f.name == "treat_output"):
            ctx.bad(rid, c, f"write_to_pathens (which archives and removes accumulators) is called from {getattr(f, '_fq', f.name)}: a path could be archived twice or while it is still live")
            continue
        fl = flow_of(f)
        cfg = fl.cfg
        at = cfg.node_of(c)
        g = False
        for e, t, bn in cfg.guards(at):
            if t and isinstance(e, ast.Compare) and isinstance(e.ops[0], ast.Eq):
                sides = [e.left, e.comparators[0]]
                if any(isinstance(x, ast.Constant) and x.value == "ACC" for x in sides) and any(last_key(x) == "status" for x in sides):
                    g = True
        if not g:
            ctx.bad(rid, c, "paths are archived to the data file without a dominating test status == 'ACC': a path that is still live would be archived (and its accumulator dropped)")
        else:
            ctx.ok(rid, c, "archive only under status == 'ACC'")
        a = c.args[1] if len(c.args) > 1 else None
        if a is not None and last_key(a) == "pnum_old" and path_of(a) and path_of(a).startswith("md_items"):
            ctx.ok(rid, c, "the archived paths are the ones recorded at pick time (md_items['pnum_old'])")
        else:
            ctx.bad(rid, c, "the list of archived paths is not the job's md_items['pnum_old'] recorded at pick time")
        commits = [cfg.node_of(x) for x in walk_local(f) if isinstance(x, ast.Call) and is_self_attr(x.func, "write_toml")]
        if commits and all(cfg.reaches(at, w) for w in commits) and not any(cfg.reaches(w, at) for w in commits):
            ctx.ok(rid, c, "archive (and removal from traj_data) precedes write_toml: an archived path's weights are not also written to restart.toml")
        else:
            ctx.bad(rid, c, "the archive does not precede the commit: restart.toml would still contain the weights of a path that is also in the data file")
    if ncalls == 0:
        ctx.bad(rid, tree.func(REPEX, "write_to_pathens"), "write_to_pathens is never called: replaced paths are never archived")
    # pnum_old is recorded at pick time
    prep = tree.func(REPEX, "REPEX_state.prep_md_items")
    if any(isinstance(n, ast.Assign) and any(last_key(t) == "pnum_old" for t in n.targets) for n in walk_local(prep)):
        ctx.ok(rid, prep, "md_items['pnum_old'] is recorded in prep_md_items")
    else:
        ctx.bad(rid, prep, "md_items['pnum_old'] is not recorded at pick time")
    # inside write_to_pathens: every row written removes the path from the live table
    g = tree.func(REPEX, "write_to_pathens")
    gfl = flow_of(g)
    gcfg = gfl.cfg
    writes = [c for c in walk_local(g) if isinstance(c, ast.Call) and isinstance(c.func, ast.Attribute) and c.func.attr == "write"]
    pops = [c for c in walk_local(g) if isinstance(c, ast.Call) and isinstance(c.func, ast.Attribute) and c.func.attr in ("pop", "__delitem__") and "traj_data" in ast.unparse(c.func.value)]
    pops += [d for d in walk_local(g) if isinstance(d, ast.Delete) and "traj_data" in ast.unparse(d)]
    loops = [l for l in walk_local(g) if isinstance(l, ast.For)]
    if not writes or not loops:
        raise AnalysisError("R-4.3: row writer / loop not found in write_to_pathens")
    head = gcfg.node_of(loops[0])
    pn = [gcfg.node_of(p) for p in pops]
    lv = ast.unparse(loops[0].target)
    for w in writes:
        wn = gcfg.node_of(w)
        # from the write, the next loop head or the exit is only reachable through a pop of the same path
        r = gcfg.reachable(wn, avoid=pn)
        good_pop = [p for p in pops if (isinstance(p, ast.Call) and p.args and ast.unparse(p.args[0]) == lv) or (isinstance(p, ast.Delete) and f"[{lv}]" in ast.unparse(p))]
        if not good_pop or head.id in r or gcfg.exit.id in r:
            ctx.bad(rid, w, "a row is written for a path without removing that path from traj_data before the next row / return: its weights appear both in the data file and in restart.toml (write_toml serialises every key of traj_data)")
        else:
            ctx.ok(rid, w, "every row written is followed by traj_data.pop(<that path>) before the next row / return")
    # rows are appended (not rewritten) and one row per archived path
    if len(writes) != 1 or loops_of(writes[0]) == [] or any(isinstance(l, ast.For) for l in loops_of(writes[0])[1:]):
        ctx.bad(rid, writes[0], "a replaced path can get more than one row (write is not exactly once per element of the archive list)")


def r45(ctx):
    """The idle guard really distinguishes busy from idle paths: membership tests against the
    locked paths compare path numbers in one representation (shared with C03 R-3.8)."""
    from . import c03
    from ..loader import FUNC

    class Proxy:
        def __init__(self, c):
            self._c = c
            self.tree = c.tree

        def ok(self, rid, node, what, nontrivial=True):
            self._c.ok("R-4.5", node, what, nontrivial)

        def bad(self, rid, node, message, **kw):
            self._c.bad("R-4.5", node, message, **kw)

        def note(self, m):
            self._c.note(m)

    cls = ctx.tree.cls(REPEX, "REPEX_state")
    methods = {s.name: s for s in cls.body if isinstance(s, FUNC)}
    c03.r38(Proxy(ctx), methods)


def r44(ctx):
    """Restart round trip of accumulators (the C06 R-6.1 sub-rule, evaluated under C04)."""
    from .c06 import frac_round_trip
    frac_round_trip(ctx, "R-4.4")


def _r412(ctx):
    from . import c03 as _c03

    class _Quiet:
        tree = ctx.tree

        def ok(self, *a, **k):
            pass

        def bad(self, *a, **k):
            pass

        def note(self, *a, **k):
            pass

    acq_funcs, _rel = _c03.r31_32(_Quiet())
    acq, methods = _c03._acquiring_functions(ctx.tree, acq_funcs)
    _c03.r314(ctx, acq, methods, "R-4.12", " - the idle ensemble is excluded from the P matrix and gets no weight at any later step, and no assertion fires")


def r414(ctx):
    """Every completed step credits one unit to each idle ensemble - also a step whose move was
    rejected (cstep advances all the same). The accumulation loop is therefore on every normal
    path through treat_output: the only condition on the way to a `frac +=` is the idle test
    inside its own loop."""
    rid = "R-4.14"
    f = ctx.tree.func(REPEX, "REPEX_state.treat_output")
    cfg = cfg_of(f)
    accs = [st for st in walk_local(f) if isinstance(st, ast.AugAssign) and _is_traj_frac(st.target)]
    if not accs:
        raise AnalysisError("R-4.14: accumulating statement not found")
    for st in accs:
        loops = [l for l in loops_of(st) if isinstance(l, (ast.For, ast.While))]
        outer = loops[-1] if loops else st
        # conditions that dominate the loop itself (not those inside it)
        inside = {id(x) for x in ast.walk(outer)}
        conds = [(ast.unparse(e), t) for e, t, bn in cfg.guards(cfg.node_of(st)) if id(e) not in inside]
        # a `self._last_prob is None` refresh before the loop is a separate statement and not a guard of it
        conds = [c for c in conds if "_last_prob" not in c[0]]
        if conds:
            ctx.bad(rid, st, f"treat_output records the weights of the idle paths only when `{conds[0][0]}` is {conds[0][1]}: a step that completes otherwise (e.g. a rejected move) advances the step counter but gives no idle ensemble its unit of weight - data-file rows plus live weights no longer add up to one unit per idle ensemble per completed step, permanently",
                    construct=f"treat_output: weights recorded under {conds[0][0]}")
        else:
            ctx.ok(rid, st, "the accumulation loop runs on every normal path through treat_output (only the idle test inside the loop selects)")


def run(ctx):
    ctx.rule("R-4.14", "every completed step - accepted or rejected - credits the idle ensembles: the accumulation loop of treat_output is not under any condition other than its own idle test", floor=1)
    ctx.attempt(r414, ctx)
    ctx.rule("R-4.7", "a restart keeps the persisted settings, among them the data file the rows are appended to", floor=4)
    ctx.rule("R-4.6", "the weights of a step are recorded before the restart file of that step is written (nothing write_toml serialises - frac, the P-matrix stream - changes after it)", floor=1)
    ctx.rule("R-4.1", "who may write traj_data[...]['frac']", floor=4)
    ctx.rule("R-4.2", "accumulate only for idle live paths, after the finished job was inserted", floor=1)
    ctx.rule("R-4.3", "archive exactly once, only on replacement, removing the path from the live table before the commit", floor=5)
    ctx.rule("R-4.5", "the idle guard compares path numbers in one representation (shared with C03 R-3.8)", floor=3)
    ctx.rule("R-4.4", "restart round trip of accumulators: every path of traj_data is persisted, keys agree (shared with C06 R-6.1)", floor=2)
    ctx.rule("R-4.8", "the archived row of a replaced path is on disk before restart.toml records the path as gone (= C08 R-8.9: per-step file writes closed or flushed before the commit)", floor=3)
    ctx.rule("R-4.9", "path numbers are never tested by truthiness (path 0 is a path): a rejected move on path 0 must not renumber it and orphan its accumulated weights", floor=3)
    from .shared import path_number_truthiness
    ctx.attempt(path_number_truthiness, ctx, "R-4.9", [REPEX, "infretis/classes/path.py", "infretis/core/tis.py"], ": a rejected move on path 0 gives it a new number and a fresh all-zero accumulator; the old weights are neither archived nor kept live, so data rows plus live weights no longer add up to the step count")
    ctx.rule("R-4.10", "the weights recorded at a step are rows of the P matrix of the state after the finished job was inserted: no read of a memoised matrix that was computed for an earlier busy set (shared with C02 R-2.1)", floor=20)
    from . import c02 as _c02
    from .shared import RuleProxy as _RP4
    ctx.attempt(_c02.r21, _RP4(ctx, "R-4.10", " - the ensemble that has just become idle is credited 0 instead of its share for this step: rows in the data file plus live weights no longer add up to the number of idle steps"))
    ctx.rule("R-4.11", "the busy set that protects in-flight paths from the re-sort and from being credited weight is the whole set (every path of every job; shared with C03 R-3.10)", floor=2)
    from .shared import whole_busy_set
    ctx.attempt(whole_busy_set, ctx, "R-4.11", " (its weights are then recorded while busy, and the idle path that took its slot is overwritten without being archived)")
    ctx.rule("R-4.12", "an ensemble is busy exactly while a recorded job holds it: acquires only in functions that record the job in self.locked (shared with C03 R-3.14) - an ensemble left busy without a job is never credited weight again", floor=3)
    ctx.attempt(_r412, ctx)
    ctx.rule("R-4.13", "a path is replaced only when the move as a whole was accepted (run_md installs the trial paths under the move's status, treat_output archives under the same status): shared with C09 R-9.2", floor=3)
    from . import c09 as _c09
    from .shared import RuleProxy as _RP4b
    ctx.attempt(_c09.r92, _RP4b(ctx, "R-4.13", " (the old path is replaced although write_to_pathens, which runs under status == 'ACC', does not archive it: its accumulated weights are never written and data rows plus live weights no longer add up)"))
    ctx.attempt(r41, ctx)
    ctx.attempt(r42, ctx)
    ctx.attempt(r43, ctx)
    ctx.attempt(r44, ctx)
    ctx.attempt(r45, ctx)
    from .shared import commit_is_final, restart_preserves_settings
    from .c08 import r89
    ctx.attempt(r89, ctx, "R-4.8")
    ctx.attempt(commit_is_final, ctx, "R-4.6")
    ctx.attempt(restart_preserves_settings, ctx, "R-4.7", " - in particular output.data_file: rows written after the restart go to another file and the weights of the run no longer add up")


VARIANTS = [
    B("c04-weights-recorded-for-accepted-moves-only", REPEX, "        # record weights\n        locked_trajs = self.locked_paths()\n        if self._last_prob is None:\n            self.prob\n        for idx, live in enumerate(self.live_paths()):\n            if live not in locked_trajs:\n                self.traj_data[live][\"frac\"] += self._last_prob[:-1][idx, :]\n", "        # record weights\n        locked_trajs = self.locked_paths()\n        if self._last_prob is None:\n            self.prob\n        if md_items[\"status\"] == \"ACC\":\n            for idx, live in enumerate(self.live_paths()):\n                if live not in locked_trajs:\n                    self.traj_data[live][\"frac\"] += self._last_prob[:-1][idx, :]\n", "R-4.14", control=True, why="seeded C04_o"),
    B("c04-trial-installed-under-its-own-status", "infretis/core/tis.py", '        if status == "ACC":\n            minus = True if ens_num < 0 else False', '        if trial.status == "ACC":\n            minus = True if ens_num < 0 else False', "R-4.13", control=True, why="seeded C04_m (= C09_j)"),
    B("c04-busy-flags-restored-at-load", REPEX, '            "frac": np.array(frac, dtype="longdouble"),\n        }\n\n    def pattern_header', '            "frac": np.array(frac, dtype="longdouble"),\n        }\n        for enss0, _ in self.locked0:\n            for ens in enss0:\n                self.lock(ens)\n\n    def pattern_header', "R-4.12", control=True, why="seeded C04_j"),
    B("c04-resort-protects-one-path-per-job", REPEX, "            locks = self.locked_paths()\n            zero_idx", "            locks = [int(pnums[0]) for _, pnums in self.locked]\n            zero_idx", "R-4.11", control=True, why="seeded C04_i"),
    K("c04-keep-resort-busy-set-from-record", REPEX, "            locks = self.locked_paths()\n            zero_idx", "            locks = [int(pn) for _, pnums in self.locked for pn in pnums]\n            zero_idx", why="every path of every job: same set"),
    B("c04-rejected-job-freed-without-invalidation", REPEX, "            self.add_traj(ens_num, out_traj, valid=out_traj.weights)\n\n        # record weights", "            if out_traj.path_number == pn_old:\n                self._locks[ens_num + self._offset] = 0\n            else:\n                self.add_traj(ens_num, out_traj, valid=out_traj.weights)\n\n        # record weights", "R-4.10", control=True, why="seeded C04_h"),
    B("c04-path-number-by-truthiness", REPEX, '            if out_traj.path_number is None or md_items["status"] == "ACC":', '            if not out_traj.path_number or md_items["status"] == "ACC":', "R-4.9", control=True, why="seeded C04_g"),
    B("c04-data-rows-buffered-handle", REPEX, '    with open(state.data_file, "a") as fp:\n        for pn in pn_archive:', '    fp = state.__dict__.setdefault("_data_fp", open(state.data_file, "a"))\n    if True:\n        for pn in pn_archive:', "R-4.8", control=True, why="seeded C04_f / C08_d (handle kept open between steps)"),
    B("c04-restart-resets-data-file", SETUP, '        curr["restarted_from"] = config["current"]["cstep"]\n', '        curr["restarted_from"] = config["current"]["cstep"]\n        config["output"]["data_file"] = os.path.join(config["output"]["data_dir"], "infretis_data.txt")\n', "R-4.7", control=True, why="seeded C04_d"),
    B("c04-record-weights-after-commit", REPEX, "        # record weights\n        locked_trajs = self.locked_paths()\n        if self._last_prob is None:\n            self.prob\n        for idx, live in enumerate(self.live_paths()):\n            if live not in locked_trajs:\n                self.traj_data[live][\"frac\"] += self._last_prob[:-1][idx, :]\n\n", "", "R-4.6", control=True, why="seeded C04_c",
      also=[(REPEX, "        # save for possible restart\n        self.write_toml()\n\n        return md_items", "        # save for possible restart\n        self.write_toml()\n        locked_trajs = self.locked_paths()\n        if self._last_prob is None:\n            self.prob\n        for idx, live in enumerate(self.live_paths()):\n            if live not in locked_trajs:\n                self.traj_data[live][\"frac\"] += self._last_prob[:-1][idx, :]\n\n        return md_items")]),
    B("c04-frac-reset-in-sort", REPEX, "            self.swap(ens_idx, trj_idx)\n            needstomove", "            self.swap(ens_idx, trj_idx)\n            self.traj_data[self._trajs[ens_idx].path_number][\"frac\"] *= 0\n            needstomove", "R-4.1", control=True),
    B("c04-new-path-inherits-weights", REPEX, '                    "frac": np.zeros(self.n, dtype="longdouble"),', '                    "frac": self.traj_data[pn_old]["frac"],', "R-4.1"),
    B("c04-restore-ignores-file", REPEX, '                "frac": np.array(frac, dtype="longdouble"),\n            }\n        # add minus path:', '                "frac": np.zeros(size + 1, dtype="longdouble"),\n            }\n        # add minus path:', "R-4.1"),
    B("c04-idle-guard-dropped", REPEX, "            if live not in locked_trajs:\n                self.traj_data[live][\"frac\"] += self._last_prob[:-1][idx, :]", "            if True:\n                self.traj_data[live][\"frac\"] += self._last_prob[:-1][idx, :]", "R-4.2", control=True),
    B("c04-idle-guard-inverted", REPEX, "            if live not in locked_trajs:\n                self.traj_data[live][\"frac\"] +=", "            if live in locked_trajs:\n                self.traj_data[live][\"frac\"] +=", "R-4.2"),
    B("c04-locked-before-insert", REPEX, '        pn_news = []\n        md_items["md_end"] = time.time()', '        pn_news = []\n        locked_trajs = self.locked_paths()\n        md_items["md_end"] = time.time()', "R-4.2",
      also=[(REPEX, "        # record weights\n        locked_trajs = self.locked_paths()\n", "        # record weights\n")]),
    B("c04-wrong-row", REPEX, 'self.traj_data[live]["frac"] += self._last_prob[:-1][idx, :]', 'self.traj_data[live]["frac"] += self._last_prob[:-1][0, :]', "R-4.2"),
    B("c04-archive-any-status", REPEX, '        if md_items["status"] == "ACC":\n            write_to_pathens(self, md_items["pnum_old"])', '        if md_items["status"] != "REJ":\n            write_to_pathens(self, md_items["pnum_old"])', "R-4.3", control=True),
    B("c04-archive-without-pop", REPEX, "            traj_data.pop(pn)\n", "", "R-4.3"),
    B("c04-archive-after-commit", REPEX, '        if md_items["status"] == "ACC":\n            write_to_pathens(self, md_items["pnum_old"])\n\n        self.sort_trajstate()', "        self.sort_trajstate()", "R-4.3",
      also=[(REPEX, "        # save for possible restart\n        self.write_toml()\n\n        return md_items", '        # save for possible restart\n        self.write_toml()\n        if md_items["status"] == "ACC":\n            write_to_pathens(self, md_items["pnum_old"])\n\n        return md_items')]),
    B("c04-archive-live-paths", REPEX, 'write_to_pathens(self, md_items["pnum_old"])', "write_to_pathens(self, pn_news)", "R-4.3"),
    B("c04-second-archive-site", REPEX, "        self.print_end()\n            self.write_toml()", "        self.print_end()\n            write_to_pathens(self, self.live_paths())\n            self.write_toml()", "R-4.3"),
    B("c04-index-into-filtered-list", REPEX, "        for idx, live in enumerate(self.live_paths()):\n            if live not in locked_trajs:\n                self.traj_data[live][\"frac\"] += self._last_prob[:-1][idx, :]", "        idle_trajs = [live for live in self.live_paths() if live not in locked_trajs]\n        for idx, live in enumerate(idle_trajs):\n            self.traj_data[live][\"frac\"] += self._last_prob[:-1][idx, :]", "R-4.2", why="seeded C04_a"),
    B("c04-locked-paths-from-record", REPEX, "        locks = [\n            t0.path_number\n            for t0, l0 in zip(self._trajs[:-1], self._locks[:-1])\n            if l0\n        ]\n        return locks", "        return [pnum for _, pnums in self.locked for pnum in pnums]", "R-4.5", why="seeded C03_a / C05_a: busy paths would receive weight"),
    B("c04-frac-of-busy-paths-not-saved", REPEX, "        for key in sorted(self.traj_data.keys()):\n            fracs", "        locked_trajs = self.locked_paths()\n        for key in sorted(self.traj_data.keys()):\n            if key in locked_trajs:\n                continue\n            fracs", "R-4.4", control=True, why="seeded C04_b"),
    K("c04-keep-prefiltered-pairs", REPEX, "        for idx, live in enumerate(self.live_paths()):\n            if live not in locked_trajs:\n                self.traj_data[live][\"frac\"] += self._last_prob[:-1][idx, :]", "        idle = [(idx, live) for idx, live in enumerate(self.live_paths()) if live not in locked_trajs]\n        for idx, live in idle:\n            self.traj_data[live][\"frac\"] += self._last_prob[:-1][idx, :]"),
    K("c04-keep-guard-via-set", REPEX, "            if live not in locked_trajs:\n                self.traj_data[live][\"frac\"] +=", "            if not (live in locked_trajs):\n                self.traj_data[live][\"frac\"] +="),
    K("c04-keep-acc-swapped", REPEX, '        if md_items["status"] == "ACC":\n            write_to_pathens', '        if "ACC" == md_items["status"]:\n            write_to_pathens'),
    K("c04-keep-pop-via-del", REPEX, "            traj_data.pop(pn)\n", "            del traj_data[pn]\n"),
]
