"""C05 - the sampler never stalls (one conjunct decided: path numbers are never reused).

Counter discipline for path numbers; the matching / termination clauses are
value-level and stated as not decided.
"""

from __future__ import annotations

import ast

from ..cfg import cfg_of
from ..flow import flow_of, path_of
from ..loader import FUNC, AnalysisError, dotted, last_name, loc, short, walk_local
from ..util import PATH, REPEX, SETUP, is_self_attr, keys_chain, last_key
from ..variants import B, K

EXPLANATION = (
    "(R-5.1) counter discipline for path numbers in treat_output: every store "
    "to <path>.path_number takes the local counter that was read from "
    "config['current']['traj_num'] at function entry; on every path from such "
    "a store to the next store or to the commit the counter is incremented "
    "exactly once; the store-back config['current']['traj_num'] = counter "
    "follows all increments and precedes write_toml; repository-wide, "
    "path_number is otherwise written only by Path.__init__ (None), Path.copy "
    "(the source's number) and load_paths_from_disk (from current.active); "
    "traj_num is initialised to the number of initial paths."
)
NOT_DECIDED = (
    "existence of a perfect matching in every reachable weight matrix, finiteness / normalisation "
    "of P, termination of the while loop in sort_trajstate, that each idle live path sits where its "
    "weight is non-zero - all quantify over reachable values of the state matrix"
)
ASSUMPTIONS = ["initial paths are numbered 0 .. size-1 (config['current']['active'] = range(size))"]


def r51(ctx):
    rid = "R-5.1"
    tree = ctx.tree
    f = tree.func(REPEX, "REPEX_state.treat_output")
    fl = flow_of(f)
    cfg = fl.cfg
    numbering = [d for d in fl.defs if d.path.endswith(".path_number") and d.kind == "assign"]
    if not numbering:
        raise AnalysisError("R-5.1: numbering store not found in treat_output")
    commits = [cfg.node_of(c) for c in walk_local(f) if isinstance(c, ast.Call) and is_self_attr(c.func, "write_toml")]
    for d in numbering:
        cp = path_of(d.value)
        if cp is None:
            ctx.bad(rid, d.stmt, "a path is numbered with an expression that is not the path-number counter", construct=short(d.stmt, 70))
            continue
        rds = fl.rd(cp, d.at)
        inits = [x for x, _ in rds if x.kind == "assign"]
        incs = [x for x, _ in rds if x.kind == "aug"]
        ok = True
        for x in inits:
            k = keys_chain(x.value)
            ks = [a for a in k[1] if a != ".config"]
            if not (ks[-2:] == ["current", "traj_num"]):
                ctx.bad(rid, x.stmt, "the path-number counter is not read from config['current']['traj_num']: numbers can repeat after a restart", construct=short(x.stmt, 70))
                ok = False
        for x in incs:
            if not (isinstance(x.stmt.op, ast.Add) and isinstance(x.stmt.value, ast.Constant) and x.stmt.value.value == 1):
                ctx.bad(rid, x.stmt, "the path-number counter is not advanced by exactly 1")
                ok = False
        all_incs = [x for x in fl.defs if x.path == cp and x.kind == "aug"]
        inc_nodes = [x.at for x in all_incs]
        num_nodes = [x.at for x in numbering]
        # exactly one increment between this numbering and the next numbering / the commit
        targets = num_nodes + commits
        r = cfg.reachable(d.at, avoid=inc_nodes)
        if any(t.id in r for t in targets):
            ctx.bad(rid, d.stmt, "after a path has been numbered, another numbering or the commit can be reached without the counter having advanced: two paths share one number (the second overwrites load/<n>/)")
            ok = False
        for inc in inc_nodes:
            r2 = cfg.reachable(inc, avoid=num_nodes + commits)
            if any(i2.id in r2 for i2 in inc_nodes):
                ctx.bad(rid, all_incs[0].stmt, "the counter can advance twice for one numbered path")
                ok = False
        # store-back
        backs = [x for x in fl.defs if x.kind == "assign" and x.stmt is not None and isinstance(x.stmt, ast.Assign) and keys_chain(x.stmt.targets[0])[1][-2:] == ["current", "traj_num"]]
        if not backs:
            ctx.bad(rid, d.stmt, "the advanced counter is never stored back to config['current']['traj_num']: after a restart numbers are reused")
            ok = False
        for b in backs:
            if path_of(b.value) != cp:
                ctx.bad(rid, b.stmt, "config['current']['traj_num'] is not set from the path-number counter")
                ok = False
            if any(cfg.reaches(b.at, i) for i in inc_nodes if not cfg.reaches(i, b.at)) or any(cfg.reaches(b.at, i) and not cfg.in_loop(b.at) for i in inc_nodes):
                ctx.bad(rid, b.stmt, "the counter is stored back before its last increment")
                ok = False
            if not all(cfg.reaches(b.at, c) for c in commits) or any(cfg.reaches(c, b.at) for c in commits):
                ctx.bad(rid, b.stmt, "the counter is stored back after the commit: the restart file holds the old counter and numbers are reused after a restart")
                ok = False
        if ok:
            ctx.ok(rid, d.stmt, "numbered from the persisted counter; exactly one += 1 per numbered path; stored back after the loop and before write_toml")
    # who else writes path_number
    n_other = 0
    for m, q, g in tree.all_funcs():
        if m.rel.startswith("infretis/tools/") or g is f:
            continue
        for st in walk_local(g):
            if isinstance(st, ast.Assign):
                for t in st.targets:
                    if isinstance(t, ast.Attribute) and t.attr == "path_number":
                        n_other += 1
                        v = st.value
                        if m.rel == PATH and q == "Path.__init__" and isinstance(v, ast.Constant) and v.value is None:
                            ctx.ok(rid, st, "Path.__init__: path_number = None (not yet numbered)")
                        elif m.rel == PATH and q == "Path.copy" and isinstance(v, ast.Attribute) and v.attr == "path_number":
                            ctx.ok(rid, st, "Path.copy copies the source's number")
                        elif m.rel == PATH and q == "load_paths_from_disk":
                            gfl = flow_of(g)
                            srcs = gfl.sources(v, gfl.cfg.node_of(st))
                            if all(k == "iter" and "['current']['active']" in ast.unparse(n.value).replace('"', "'") for k, n, _, _ in srcs):
                                ctx.ok(rid, st, "load_paths_from_disk numbers loaded paths from current.active")
                            else:
                                ctx.bad(rid, st, "load_paths_from_disk numbers a loaded path with something other than its entry of current.active")
                        else:
                            ctx.bad(rid, st, f"path_number is assigned in {q}: numbers are handed out outside the counter discipline")
    # initial counter = number of initial paths
    sc = tree.func(SETUP, "setup_config")
    found = False
    for n in walk_local(sc):
        if isinstance(n, ast.Dict):
            kv = {k.value: v for k, v in zip(n.keys, n.values) if isinstance(k, ast.Constant)}
            if "traj_num" in kv and "active" in kv:
                found = True
                tn, act = ast.unparse(kv["traj_num"]), ast.unparse(kv["active"])
                if act == f"list(range({tn}))":
                    ctx.ok(rid, n, f"fresh start: traj_num = {tn} and active = {act}: the first new number is above every initial path")
                else:
                    ctx.bad(rid, n, f"fresh start: traj_num = {tn} does not equal the number of initial paths in active = {act}: the first new path reuses an initial path's number")
    if not found:
        ctx.bad(rid, sc, "setup_config does not initialise current.traj_num")


def r53(ctx):
    """The re-sort must not move a busy path: the busy-path tests of sort_trajstate compare
    path numbers in one representation (shared with C03 R-3.8)."""
    from . import c03

    class Proxy:
        def __init__(self, c):
            self._c = c
            self.tree = c.tree

        def ok(self, rid, node, what, nontrivial=True):
            self._c.ok("R-5.3", node, what, nontrivial)

        def bad(self, rid, node, message, **kw):
            self._c.bad("R-5.3", node, message, **kw)

        def note(self, m):
            self._c.note(m)

    cls = ctx.tree.cls(REPEX, "REPEX_state")
    methods = {s.name: s for s in cls.body if isinstance(s, FUNC)}
    c03.r38(Proxy(ctx), methods)
    # sort_trajstate filters its candidates by the busy paths (membership test against locked_paths(), any naming)
    from .shared import RuleProxy, whole_busy_set
    f = methods["sort_trajstate"]
    covered = whole_busy_set(RuleProxy(ctx, "R-5.3"), "R-5.3")
    if "sort_trajstate" in covered:
        ctx.ok("R-5.3", f, "sort_trajstate excludes busy paths (membership test against locked_paths()) from the swap candidates")
    else:
        ctx.bad("R-5.3", f, "sort_trajstate does not exclude busy paths from its swap candidates: a path held by an in-flight job can be moved to an idle slot")


def r54(ctx):
    """The restart file written after a step loads: in-flight jobs are recorded in the unit
    pick_lock reads back (C08 R-8.7 evaluated under C05)."""
    from . import c08

    class Proxy:
        def __init__(self, c):
            self._c = c
            self.tree = c.tree

        def ok(self, rid, node, what, nontrivial=True):
            self._c.ok("R-5.4", node, what, nontrivial)

        def bad(self, rid, node, message, **kw):
            self._c.bad("R-5.4", node, message, **kw)

        def note(self, m):
            self._c.note(m)

    c08.r87(Proxy(ctx))


def _lin_len(e, arr):
    """Linear form over {'n' (= len(arr)), other names, 1}."""
    if isinstance(e, ast.Constant) and isinstance(e.value, int) and not isinstance(e.value, bool):
        return {1: e.value}
    if isinstance(e, ast.Call) and isinstance(e.func, ast.Name) and e.func.id == "len" and e.args and ast.unparse(e.args[0]) == arr:
        return {"n": 1}
    if isinstance(e, ast.Name):
        return {e.id: 1}
    if isinstance(e, ast.BinOp) and isinstance(e.op, (ast.Add, ast.Sub)):
        a, b = _lin_len(e.left, arr), _lin_len(e.right, arr)
        if a is None or b is None:
            return None
        out = dict(a)
        for k, v in b.items():
            out[k] = out.get(k, 0) + (v if isinstance(e.op, ast.Add) else -v)
        return {k: v for k, v in out.items() if v != 0}
    return None


def r55(ctx):
    """A bound guard protects the index it guards: in the permanent / probability code, an
    `if len(A) <op> k` whose branch indexes A[k + i, ...] must imply len(A) > k + i there
    (otherwise the idle block that consists of [0-] alone raises IndexError and no job can be drawn)."""
    rid = "R-5.5"
    cls = ctx.tree.cls(REPEX, "REPEX_state")
    n = 0
    for f in [s for s in cls.body if isinstance(s, FUNC) and s.name in ("inf_retis", "find_blocks", "quick_prob", "permanent_prob", "random_prob", "prob")]:
        for node in [x for x in walk_local(f) if isinstance(x, ast.If)]:
            t = node.test
            body_, orelse_ = node.body, node.orelse
            while isinstance(t, ast.UnaryOp) and isinstance(t.op, ast.Not):
                t = t.operand
                body_, orelse_ = orelse_, body_
            if not (isinstance(t, ast.Compare) and len(t.ops) == 1):
                continue
            sides = [t.left, t.comparators[0]]
            lens = [s for s in sides if isinstance(s, ast.Call) and isinstance(s.func, ast.Name) and s.func.id == "len" and s.args]
            if len(lens) != 1:
                continue
            arr = ast.unparse(lens[0].args[0])
            a, b = _lin_len(t.left, arr), _lin_len(t.comparators[0], arr)
            if a is None or b is None:
                continue
            # normalise the test to  lin >= 0
            def hs(op, a=a, b=b):
                def sub(x, y, k=0):
                    out = dict(x)
                    for kk, v in y.items():
                        out[kk] = out.get(kk, 0) - v
                    out[1] = out.get(1, 0) + k
                    return {kk: v for kk, v in out.items() if v != 0 or kk == 1}
                if isinstance(op, ast.GtE): return sub(a, b)
                if isinstance(op, ast.Gt): return sub(a, b, -1)
                if isinstance(op, ast.LtE): return sub(b, a)
                if isinstance(op, ast.Lt): return sub(b, a, -1)
                return None
            NEG = {ast.Lt: ast.GtE, ast.LtE: ast.Gt, ast.Gt: ast.LtE, ast.GtE: ast.Lt}
            for branch, op in ((body_, t.ops[0]), (orelse_, NEG.get(type(t.ops[0]), type(None))())):
                h = hs(op) if op is not None else None
                if h is None or h.get("n", 0) != 1:
                    continue  # this branch does not bound len(A) from below
                # h: n - (rest) >= 0
                for st in branch:
                    for sub_ in [x for x in ast.walk(st) if isinstance(x, ast.Subscript)]:
                        base = sub_.value
                        while isinstance(base, ast.Subscript):
                            base = base.value
                        # index on the array whose length is tested, or on its transposed/derived name with the same length symbol
                        if ast.unparse(sub_.value) != arr:
                            continue
                        idx = sub_.slice.elts[0] if isinstance(sub_.slice, ast.Tuple) else sub_.slice
                        if isinstance(idx, ast.Slice):
                            continue
                        li = _lin_len(idx, arr)
                        if li is None:
                            continue
                        # need n - idx - 1 >= 0 to follow from h: (n - idx - 1) - h must be a non-negative constant
                        need = {"n": 1, 1: -1}
                        for kk, v in li.items():
                            need[kk] = need.get(kk, 0) - v
                        diff = dict(need)
                        for kk, v in h.items():
                            diff[kk] = diff.get(kk, 0) - v
                        diff = {kk: v for kk, v in diff.items() if v != 0}
                        if set(diff) - {1}:
                            continue  # other symbols: not a guard for this index
                        n += 1
                        if diff.get(1, 0) >= 0:
                            ctx.ok(rid, sub_, f"{f.name}: `{short(sub_, 40)}` is evaluated only where `{short(t, 40)}` {'holds' if branch is body_ else 'fails'}, which implies the index is in range")
                        else:
                            ctx.bad(rid, node, f"{f.name}: the guard `{short(t, 40)}` lets `{short(sub_, 40)}` be evaluated when len({arr}) equals the index: with every positive ensemble busy and only [0-] idle the idle block is 1x1, the index is out of range (IndexError) and no job can be drawn although a perfect matching exists",
                                    construct=f"bound guard {short(t, 40)} vs index {short(idx, 20)}")
    if n < 1:
        raise AnalysisError("R-5.5: no bound guard protecting an index found in the permanent code (expected the `len(...) <= offset` guard of inf_retis)")


def r52b(ctx):
    """Every completed step re-sorts before it commits: in treat_output the call of
    sort_trajstate() dominates write_toml() (it is executed on every path, also for a rejected
    move - the re-sort repairs idle paths that the *pick* displaced, not the returned ones)."""
    rid = "R-5.2"
    cls = ctx.tree.cls(REPEX, "REPEX_state")
    f = next(s for s in cls.body if isinstance(s, FUNC) and s.name == "treat_output")
    cfg = cfg_of(f)
    sorts = [c for c in walk_local(f) if isinstance(c, ast.Call) and is_self_attr(c.func, "sort_trajstate")]
    commits = [c for c in walk_local(f) if isinstance(c, ast.Call) and is_self_attr(c.func, "write_toml")]
    if not commits:
        raise AnalysisError("R-5.2: treat_output does not call write_toml")
    for wc in commits:
        wn = cfg.node_of(wc)
        if any(cfg.dominates(sn, wn) for s_ in sorts for sn in cfg.nodes_of(s_)):
            ctx.ok(rid, wc, "treat_output: sort_trajstate() is executed on every path to write_toml()")
        else:
            ctx.bad(rid, wc, "treat_output can reach write_toml() without having called sort_trajstate() (the re-sort is conditional or missing): after such a step an idle live path is left in an ensemble where its weight is zero, and the restart file written there does not load",
                    construct="treat_output: write_toml not dominated by sort_trajstate")


def r58(ctx):
    """The re-sort makes progress: the partner of a misplaced path is looked for in a column where
    the misplaced path's *own* weight is zero, so the partner reaches strictly further than it
    (otherwise two paths of equal reach are swapped back and forth for ever).

    Decided by evaluating the expression that computes that column over the abstract weight row
    of a plus path, `m` zeros (the minus columns, m = the offset >= 1), `k >= 1` non-zeros, then
    zeros up to the ghost column (the staircase the scheduler maintains): the forms
    `list(row[a:b]).index(0) + c`, `np.count_nonzero(row[a:b]) + c`, `np.argmax(row[a:b] == 0) + c`
    (and int(...) around them) are evaluated symbolically in (m, k); the result must be the
    position m + k of the first zero after the run. Anything else: cannot decide."""
    from ..flow import deref
    rid = "R-5.8"
    tree = ctx.tree
    f = tree.func(REPEX, "REPEX_state.sort_trajstate")
    fl = flow_of(f)
    cfg = fl.cfg
    # the column: the index used in `self.state[:, COL]`
    cols = [x for x in walk_local(f) if isinstance(x, ast.Subscript) and ast.unparse(x.value) == "self.state" and isinstance(x.slice, ast.Tuple) and len(x.slice.elts) == 2
            and isinstance(x.slice.elts[0], ast.Slice) and x.slice.elts[0].lower is None and x.slice.elts[0].upper is None]
    if not cols:
        raise AnalysisError("R-5.8: the column `self.state[:, <col>]` in which the partner is looked for was not found")
    col = cols[0].slice.elts[1]
    at = cfg.node_of(cols[0])

    def row_slice(e):
        """self.state[ROW][a:b] / self.state[ROW, a:b]  ->  (a, b) as ints / None"""
        if isinstance(e, ast.Subscript) and isinstance(e.slice, ast.Slice) and isinstance(e.value, ast.Subscript) and ast.unparse(e.value.value) == "self.state":
            def c(x, d):
                if x is None:
                    return d
                if isinstance(x, ast.Constant) and isinstance(x.value, int):
                    return x.value
                if isinstance(x, ast.UnaryOp) and isinstance(x.op, ast.USub) and isinstance(x.operand, ast.Constant):
                    return -x.operand.value
                raise AnalysisError("R-5.8: slice bound of the weight row is not a constant")
            return c(e.slice.lower, 0), c(e.slice.upper, None)
        return None

    def ev(e, depth=0):
        """value as (coefficient of m, coefficient of k, constant) for m = 1 is NOT assumed: symbolic in m and k"""
        if depth > 8:
            raise AnalysisError("R-5.8: expression too deep")
        if isinstance(e, ast.Name):
            e2, _ = deref(fl, e, at)
            if e2 is e:
                raise AnalysisError(f"R-5.8: `{e.id}` could not be resolved")
            return ev(e2, depth + 1)
        if isinstance(e, ast.Constant) and isinstance(e.value, int) and not isinstance(e.value, bool):
            return (0, 0, e.value)
        if isinstance(e, ast.BinOp) and isinstance(e.op, (ast.Add, ast.Sub)):
            a, b = ev(e.left, depth + 1), ev(e.right, depth + 1)
            sg = 1 if isinstance(e.op, ast.Add) else -1
            return tuple(x + sg * y for x, y in zip(a, b))
        if isinstance(e, ast.Call) and last_name(e) == "int" and len(e.args) == 1:
            return ev(e.args[0], depth + 1)
        if isinstance(e, ast.Attribute) and ast.unparse(e) == "self._offset":
            return (1, 0, 0)
        # position of the first zero in a slice:  list(ROW[a:b]).index(0)  /  np.argmax(ROW[a:b] == 0)
        first_zero = None
        if isinstance(e, ast.Call) and isinstance(e.func, ast.Attribute) and e.func.attr == "index" and len(e.args) == 1 and isinstance(e.args[0], ast.Constant) and e.args[0].value == 0:
            inner = e.func.value
            if isinstance(inner, ast.Call) and last_name(inner) in ("list", "tuple") and inner.args:
                inner = inner.args[0]
            first_zero = row_slice(inner)
        if isinstance(e, ast.Call) and last_name(e) == "argmax" and e.args and isinstance(e.args[0], ast.Compare) and len(e.args[0].ops) == 1 and isinstance(e.args[0].ops[0], ast.Eq) \
                and isinstance(e.args[0].comparators[0], ast.Constant) and e.args[0].comparators[0].value == 0:
            first_zero = row_slice(e.args[0].left)
        if first_zero is not None:
            a, b = first_zero
            if a < 0:
                raise AnalysisError("R-5.8: negative slice start")
            # row = m zeros, k non-zeros, zeros...; slice starts at a
            # a < m: the first element of the slice is a minus-column zero -> 0 ; a == m (with m = 1 ... general: a >= m not decidable symbolically)
            return ("first_zero", a)
        if isinstance(e, ast.Call) and last_name(e) == "count_nonzero" and e.args:
            rs = row_slice(e.args[0])
            if rs is not None:
                return ("count", rs[0])
        raise AnalysisError(f"R-5.8: `{short(e, 50)}` is outside the forms the staircase evaluation knows (cannot decide)")

    def resolve(v):
        """bring ('first_zero', a) / ('count', a) (+ linear rest) to (cm, ck, c) under m = the number of
        minus columns; the scheduler is always built with one minus ensemble (REPEX_state(config, minus=True)),
        which is read from the constructor call sites"""
        return v

    # evaluate `col` = BASE (+/- constants);  BASE is one symbolic atom
    def split(e, depth=0):
        if isinstance(e, ast.Name):
            e2, _ = deref(fl, e, at)
            if e2 is e:
                raise AnalysisError(f"R-5.8: `{e.id}` could not be resolved")
            return split(e2, depth + 1)
        if isinstance(e, ast.Call) and last_name(e) == "int" and len(e.args) == 1:
            return split(e.args[0], depth + 1)
        if isinstance(e, ast.BinOp) and isinstance(e.op, (ast.Add, ast.Sub)):
            sg = 1 if isinstance(e.op, ast.Add) else -1
            try:
                c = ev(e.right, depth + 1)
                if isinstance(c[0], int) and c[:2] == (0, 0):
                    atom, k0 = split(e.left, depth + 1)
                    return atom, k0 + sg * c[2]
            except AnalysisError:
                pass
            c = ev(e.left, depth + 1)
            if isinstance(c[0], int) and c[:2] == (0, 0) and sg == 1:
                atom, k0 = split(e.right, depth + 1)
                return atom, k0 + c[2]
            raise AnalysisError("R-5.8: column expression is not <atom> + constant")
        v = ev(e, depth + 1)
        if isinstance(v[0], str):
            return v, 0
        raise AnalysisError("R-5.8: column expression has no position atom")

    (kind, a), shift = split(col)
    # number of minus columns m: every construction REPEX_state(config, minus=True) -> m = 1
    m = None
    for mm, q, g in tree.all_funcs():
        for c in [x for x in walk_local(g) if isinstance(x, ast.Call) and last_name(x) == "REPEX_state"]:
            mv = next((k.value for k in c.keywords if k.arg == "minus"), c.args[1] if len(c.args) > 1 else None)
            val = int(bool(mv.value)) if isinstance(mv, ast.Constant) else None
            if val is None or (m is not None and m != val):
                raise AnalysisError("R-5.8: the number of minus ensembles is not the same constant at every construction of REPEX_state")
            m = val
    if m is None:
        raise AnalysisError("R-5.8: no construction of REPEX_state found")
    # value of the atom for a plus-path row: m zeros, k >= 1 non-zeros, then zeros
    if kind == "first_zero":
        # first zero of row[a:]: a < m -> the slice starts on a minus-column zero: position 0 of the slice, i.e. column a
        if a < m:
            val = ("const", a)
        else:
            if a > m:
                raise AnalysisError("R-5.8: the slice starts inside the non-zero run (cannot decide)")
            val = ("k", 0)  # k positions into the slice -> slice index k
            # slice index k corresponds to full column a + k only after adding a
    else:
        # count of non-zeros in row[a:-1]: all k of them when a <= m
        if a > m:
            raise AnalysisError("R-5.8: the counted slice starts inside the non-zero run (cannot decide)")
        val = ("k", 0)
    if val[0] == "const":
        got_txt = f"column {val[1] + shift}"
        ok = False
    else:
        # column = k + shift ; required: m + k
        ok = shift == m
        got_txt = f"column k + {shift}" if shift else "column k"
    if ok:
        ctx.ok(rid, cols[0], f"for a path with weights [0]*{m} + [w]*k + [0...] the partner is looked for in column {m} + k, the first ensemble where the misplaced path itself has no weight: the partner reaches strictly further (progress of the re-sort)")
    else:
        ctx.bad(rid, cols[0], f"sort_trajstate looks for the partner of a misplaced path in `{short(col, 40)}` = {got_txt} for a path whose weight row is {m} minus-column zero(s), k non-zeros, then zeros; the first column where that path itself has no weight is {m} + k. In a column where its own weight is non-zero a partner of *equal* reach qualifies: the two are swapped back and forth and the re-sort never terminates", construct=f"sort_trajstate: partner column {short(col, 40)}")


def r510(ctx):
    """The P matrix is not evaluated by the acquire primitive. A function that marks an ensemble busy
    (stores 1 into the busy flags) does not evaluate P after that store: with the maximum number of
    workers and a zero swap in flight every ensemble can be busy at that moment, the idle block is
    empty and the evaluation raises - no job can be drawn. P is evaluated where a job is chosen
    (before the acquire) and after a result was inserted (an ensemble has just become idle)."""
    rid = "R-5.10"
    tree = ctx.tree
    cls = tree.cls(REPEX, "REPEX_state")
    n = 0
    for f in [x for x in cls.body if isinstance(x, FUNC)]:
        acq = [st for st in walk_local(f) if isinstance(st, ast.Assign) and isinstance(st.value, ast.Constant) and st.value.value == 1 and not isinstance(st.value.value, bool)
               and any(isinstance(t, ast.Subscript) and path_of(t.value) == "self._locks" for t in st.targets)]
        if not acq:
            continue
        n += 1
        cfg = cfg_of(f)
        evals = [x for x in walk_local(f) if (isinstance(x, ast.Attribute) and isinstance(x.value, ast.Name) and x.value.id == "self" and x.attr == "prob" and isinstance(x.ctx, ast.Load))
                 or (isinstance(x, ast.Call) and last_name(x) == "inf_retis")]
        late = [e for e in evals for a in acq if any(cfg.reaches(cfg.node_of(a), en, labels_excluded=("exc",)) and en.id != cfg.node_of(a).id for en in cfg.nodes_of(e))]
        if late:
            ctx.bad(rid, late[0], f"REPEX_state.{f.name} evaluates the P matrix after it has marked an ensemble busy: with workers = ensembles - 1 and a zero swap in flight the last acquire leaves no idle ensemble, the idle block is empty and the evaluation raises (argmax of an empty sequence) - the job cannot be drawn", construct=f"{f.name}: P evaluated after the acquire")
        else:
            ctx.ok(rid, acq[0], f"REPEX_state.{f.name}: the acquire does not evaluate the P matrix")
    if n == 0:
        raise AnalysisError("R-5.10: no acquire store found in REPEX_state")


TIS_REL = "infretis/core/tis.py"


def run(ctx):
    ctx.rule("R-5.2", "the restart file written after a step is written after the re-sorting (commit is final)", floor=1)
    ctx.rule("R-5.4", "in-flight jobs are persisted in the ensemble-index unit that the restart reads back (shared with C08 R-8.7)", floor=4)
    ctx.rule("R-5.3", "the re-sort only moves idle paths: busy-path membership tests compare like with like (shared with C03 R-3.8)", floor=4)
    ctx.rule("R-5.6", "the re-sort and the weight recording test candidates against the whole busy set (shared with C03 R-3.10)", floor=2)
    ctx.rule("R-5.5", "in the permanent code a length guard implies that the index it protects is in range (the idle block may consist of [0-] alone)", floor=1)
    ctx.rule("R-5.1", "path-number counter discipline (never reused, also across restarts)", floor=5)
    ctx.attempt(r51, ctx)
    ctx.attempt(r53, ctx)
    ctx.attempt(r54, ctx)
    ctx.attempt(r55, ctx)
    from .shared import whole_busy_set
    ctx.attempt(whole_busy_set, ctx, "R-5.6", " - the re-sort can then move a busy path")
    from .shared import commit_is_final
    ctx.attempt(commit_is_final, ctx, "R-5.2")
    ctx.attempt(r52b, ctx)
    ctx.rule("R-5.8", "progress of the re-sort: the partner column is the first one where the misplaced path itself has zero weight (symbolic evaluation over the staircase weight row)", floor=1)
    ctx.attempt(r58, ctx)
    ctx.rule("R-5.10", "the acquire primitive does not evaluate the P matrix (the idle block may be empty right after the last acquire)", floor=1)
    ctx.attempt(r510, ctx)
    ctx.rule("R-5.17", "a zero swap is only started when its partner ensemble is idle (dominating test on the partner's own busy flag; shared with C03 R-3.4): else the partner is drawn from an all-zero column of P", floor=2)
    from . import c03 as _c03p
    from .shared import RuleProxy as _RP5p

    class _Quiet(_RP5p):  # the acquire tables of C03 are recomputed without reporting their own rules here
        def ok(self, *a, **k):
            pass

        def bad(self, *a, **k):
            pass

    def _r517(c):
        acq_funcs, _rel = _c03p.r31_32(_Quiet(c, "R-5.17"))
        acq, methods = _c03p.r33(_Quiet(c, "R-5.17"), acq_funcs)
        _c03p.r34(_RP5p(c, "R-5.17", " (rgen.choice raises on probabilities that do not sum to 1: no job can be drawn and the picked ensemble stays busy for good)"), acq, methods)
    ctx.attempt(_r517, ctx)
    ctx.rule("R-5.16", "the restart file written after a step loads: it is complete when it takes the final name (dump, close, then the replace; shared with C08 R-8.2)", floor=1)
    from . import c08 as _c08o
    from .shared import RuleProxy as _RP5o
    ctx.attempt(_c08o.r82, _RP5o(ctx, "R-5.16", " (a process that dies between the rename and the close leaves an empty or cut restart.toml and no older copy: the sampler cannot be continued from that step)"))
    ctx.rule("R-5.15", "a job is only drawn for an ensemble in which its path has weight: the rows of the P matrix are put back at the positions of their paths (scatter through the index array that sorted, shared with C02 R-2.4 / R-2.5)", floor=5)
    from . import c02 as _c02e
    from .shared import RuleProxy as _RP5d
    ctx.attempt(_c02e.r24_25, _RP5d(ctx, "R-5.15", " (a path is picked for an ensemble where its weight is zero: when that job is rejected add_traj hits `assert valid[ens] != 0`, the step cannot complete and the worker never gets another job)"))
    ctx.rule("R-5.14", "a picked job can always be given its engines: a worker releases every engine slot it holds before it claims the slots of its next job (shared with C03 R-3.6)", floor=4)
    from . import c03 as _c03d
    from .shared import RuleProxy as _RP5c
    ctx.attempt(_c03d.r36, _RP5c(ctx, "R-5.14", " (a worker keeps the single slot of a scarce engine type while it runs jobs of another type: the next worker picked for that type finds no free engine, prep_md_items raises and the idle worker cannot be given a job)"))
    ctx.rule("R-5.13", "an accepted path has non-zero weight in its own ensemble, so the step can be completed (add_traj asserts it): calc_cv_vector / compute_weight plumbing, options tested with `is not False` (shared with C10 R-10.4)", floor=5)
    from . import c10 as _c10
    from .shared import RuleProxy as _RP5b
    ctx.attempt(_c10.r104, _RP5b(ctx, "R-5.13", " - add_traj hits `assert valid[ens] != 0`, the step cannot complete, the ensemble stays busy and the worker never gets another job"))
    ctx.rule("R-5.12", "a job can be drawn from P: the fast kernel clamps its probability budget between every subtraction and the next use, so P has no negative entries (shared with C02 R-2.12)", floor=1)
    from . import c02 as _c02c
    ctx.attempt(_c02c.r212, ctx, "R-5.12", " - rgen.choice rejects the distribution (probabilities are not non-negative) and no job can be drawn although ensembles are idle")
    ctx.rule("R-5.11", "after the re-sort the next job is drawn from a P matrix of the re-sorted rows: every function that permutes the slot list invalidates the memoised matrix before it is read again (shared with C02 R-2.1)", floor=20)
    from . import c02 as _c02b
    from .shared import RuleProxy as _RP5
    ctx.attempt(_c02b.r21, _RP5(ctx, "R-5.11", " - the (row, ensemble) pair drawn next belongs to another path than the one now in that row: a path with zero weight is placed, the idle block loses its perfect matching and no job can be drawn"))
    ctx.rule("R-5.9", "the Monte-Carlo P matrix of large blocks is normalised by the number of accumulated samples (shared with C02 R-2.9): the probabilities sum to one, a job can be drawn", floor=1)
    from . import c02 as _c02
    ctx.attempt(_c02.r29, ctx, "R-5.9")


VARIANTS = [
    B("c05-zero-swap-guard-tests-the-wrong-flag", REPEX, "            or (ens == self._offset - 1 and not self._locks[self._offset])", "            or (ens == self._offset - 1 and not self._locks[self._offset + 1])", "R-5.17", control=True, why="seeded C05_p"),
    B("c05-restart-file-renamed-before-it-is-closed", REPEX, '        os.replace("./restart.toml.tmp", "./restart.toml")\n', '            os.replace("./restart.toml.tmp", "./restart.toml")\n', "R-5.16", control=True, why="seeded C05_o"),
    B("c05-rows-gathered-with-the-sorting-permutation", REPEX, "        out[sort_idx] = out.copy()  # COPY REQUIRED TO NOT BRAKE STATE!!!", "        out = out[sort_idx]  # undo the row sorting", "R-5.15", control=True, why="seeded C05_n"),
    B("c05-engines-released-per-requested-type-only", "infretis/classes/engines/factory.py", "    for eng_key in engine_occ.keys():\n        for i, occupied_by in enumerate(engine_occ[eng_key]):\n            if pin == occupied_by:", "    for eng_key in eng_names:\n        for i, occupied_by in enumerate(engine_occ[eng_key]):\n            if pin == occupied_by:", "R-5.14", control=True, why="seeded C05_m"),
    B("c05-minus-interface-by-truthiness", TIS_REL, "        if lambda_minus_one is not False:", "        if lambda_minus_one:", "R-5.13", control=True, why="seeded C05_l (lambda_minus_one = 0.0 is a legal interface)"),
    B("c05-budget-clamped-before-subtraction", REPEX, "            total_traj_prob -= ens\n            # force negative values to 0\n            total_traj_prob[np.where(total_traj_prob < 0)] = 0\n", "            # force negative values to 0\n            total_traj_prob[np.where(total_traj_prob < 0)] = 0\n            total_traj_prob -= ens\n", "R-5.12", control=True, why="seeded C05_k"),
    B("c05-resort-keeps-stale-matrix", REPEX, "            ]\n        self._last_prob = None\n        self.prob\n\n    def lock(self, ens):", "            ]\n        self.prob\n\n    def lock(self, ens):", "R-5.11", control=True, why="seeded C05_j"),
    B("c05-lock-refreshes-probabilities", REPEX, "        assert self._locks[ens] == 0\n        self._locks[ens] = 1\n", "        assert self._locks[ens] == 0\n        self._locks[ens] = 1\n        self._last_prob = None\n        self.prob\n", "R-5.10", control=True, why="seeded C05_i"),
    B("c05-montecarlo-divisor-off-by-one", REPEX, "        return out / (n + 1)\n", "        return out / n\n", "R-5.9", control=True, why="seeded C05_h"),
    B("c05-partner-column-by-count", REPEX, "            zero_idx = list(self.state[ens_idx][1:-1]).index(0) + 1", "            zero_idx = int(np.count_nonzero(self.state[ens_idx][:-1]))", "R-5.8", control=True, why="seeded C05_g"),
    B("c05-partner-column-shift-dropped", REPEX, "            zero_idx = list(self.state[ens_idx][1:-1]).index(0) + 1", "            zero_idx = list(self.state[ens_idx][1:-1]).index(0)", "R-5.8"),
    B("c05-partner-column-from-minus-column", REPEX, "            zero_idx = list(self.state[ens_idx][1:-1]).index(0) + 1", "            zero_idx = list(self.state[ens_idx][:-1]).index(0) + 1", "R-5.8"),
    K("c05-keep-partner-column-by-count-shifted", REPEX, "            zero_idx = list(self.state[ens_idx][1:-1]).index(0) + 1", "            zero_idx = int(np.count_nonzero(self.state[ens_idx][:-1])) + 1"),
    B("c05-sort-only-when-accepted", REPEX, '            write_to_pathens(self, md_items["pnum_old"])\n\n        self.sort_trajstate()\n', '            write_to_pathens(self, md_items["pnum_old"])\n            self.sort_trajstate()\n\n', "R-5.2", why="seeded C05_d"),
    K("c05-keep-sort-busy-renamed", REPEX, "            locks = self.locked_paths()\n            zero_idx", "            busy = self.locked_paths()\n            zero_idx", also=[(REPEX, "                j if self._trajs[i].path_number not in locks else 0\n", "                j if self._trajs[i].path_number not in busy else 0\n")]),
    B("c05-sort-drops-last-busy-path", REPEX, "            locks = self.locked_paths()\n            zero_idx", "            locks = self.locked_paths()[:-1]\n            zero_idx", "R-5.6", control=True, why="seeded C03_d"),
    B("c05-only-minus-guard-off-by-one", REPEX, "        if len(sorted_non_locked_T) <= offset:\n            equal_pos = True", "        if len(sorted_non_locked_T) < offset:\n            equal_pos = True", "R-5.5", control=True, why="seeded C05_c"),
    K("c05-keep-only-minus-guard-flipped", REPEX, "        if len(sorted_non_locked_T) <= offset:\n            equal_pos = True", "        if offset >= len(sorted_non_locked_T):\n            equal_pos = True"),
    B("c05-increment-under-delete-old", REPEX, "                traj_num += 1\n                if (\n                    self.config[\"output\"].get(\"delete_old\", False)\n                    and pn_old > self.n - 2\n                ):\n", "                if (\n                    self.config[\"output\"].get(\"delete_old\", False)\n                    and pn_old > self.n - 2\n                ):\n                    traj_num += 1\n", "R-5.1", control=True),
    B("c05-storeback-after-commit", REPEX, '        self.config["current"]["traj_num"] = traj_num\n        self.cworker = md_items["pin"]', '        self.cworker = md_items["pin"]', "R-5.1",
      also=[(REPEX, "        # save for possible restart\n        self.write_toml()\n\n        return md_items", '        # save for possible restart\n        self.write_toml()\n        self.config["current"]["traj_num"] = traj_num\n\n        return md_items')]),
    B("c05-number-from-len", REPEX, "                out_traj.path_number = traj_num\n", "                out_traj.path_number = len(self.traj_data)\n", "R-5.1"),
    B("c05-counter-not-persisted", REPEX, '        self.config["current"]["traj_num"] = traj_num\n', "", "R-5.1"),
    B("c05-initial-counter-too-small", SETUP, '            "traj_num": size,\n', '            "traj_num": size - 1,\n', "R-5.1"),
    B("c05-renumber-in-add-traj", REPEX, "        self._trajs[ens] = traj\n        self.state[ens, :] = valid", "        traj.path_number = ens\n        self._trajs[ens] = traj\n        self.state[ens, :] = valid", "R-5.1"),
    B("c05-commit-before-sort", REPEX, "        self.sort_trajstate()\n        self.config[\"current\"][\"traj_num\"] = traj_num\n", "        self.config[\"current\"][\"traj_num\"] = traj_num\n        self.write_toml()\n        self.sort_trajstate()\n", "R-5.2", control=True, why="seeded C06_a"),
    B("c05-locked-paths-from-record", REPEX, "        locks = [\n            t0.path_number\n            for t0, l0 in zip(self._trajs[:-1], self._locks[:-1])\n            if l0\n        ]\n        return locks", "        return [pnum for _, pnums in self.locked for pnum in pnums]", "R-5.3", control=True, why="seeded C05_a (same change as C03_a)"),
    B("c05-sort-ignores-busy", REPEX, "                j if self._trajs[i].path_number not in locks else 0\n", "                j\n", "R-5.3"),
    B("c05-reissue-recorded-with-offset", REPEX, "        self.locked.append((enss, trajs0))\n", "        self.locked.append((enss0, trajs0))\n", "R-5.4", why="seeded C05_b (= C08_b, C06_b)"),
    K("c05-keep-plain-increment", REPEX, "                traj_num += 1\n", "                traj_num += 1  # next free number\n"),
    K("c05-keep-counter-renamed", REPEX, '        traj_num = self.config["current"]["traj_num"]', '        next_number = self.config["current"]["traj_num"]',
      also=[(REPEX, "                out_traj.path_number = traj_num\n", "                out_traj.path_number = next_number\n"),
            (REPEX, "                self.traj_data[traj_num] = {", "                self.traj_data[next_number] = {"),
            (REPEX, "                traj_num += 1\n", "                next_number += 1\n"),
            (REPEX, '        self.config["current"]["traj_num"] = traj_num\n', '        self.config["current"]["traj_num"] = next_number\n')]),
]
