"""C14 - stored paths read back unchanged; live paths never lose files.

Writer/reader layout agreement for traj.txt / order.txt / energy.txt,
deletion provenance (shared with C08) and own-directory references.
"""

from __future__ import annotations

import ast
import string

from ..cfg import cfg_of
from ..flow import deref, flow_of, path_of
from ..loader import FUNC, AnalysisError, const_fold, dotted, last_name, loc, short, walk_local
from ..util import FORMATTER, PATH, REPEX, SETUP, is_self_attr, kwarg, last_key
from ..variants import B, K

EXPLANATION = (
    "(R-14.1) traj.txt column roles: the arguments of PathExtFormatter.FMT.format "
    "are traced to their origin (position 1 <- basename of phasepoint.config[0], "
    "2 <- phasepoint.config[1], 3 <- -1/+1 from phasepoint.vel_rev) and compared "
    "with what load_path does with the same column indices (file under "
    "<pdir>/accepted, int index, == -1 -> vel_rev); the sub-directory name agrees "
    "between PathStorage.output, load_path and the deletion code; FMT has 4 fields; "
    "(R-14.2) order.txt: the reader drops exactly the one leading column the writer "
    "adds; energy.txt: writer and reader index the same ENERGY_TERMS constant and "
    "update_energies receives ekin/vpot in its parameter order; file names of the "
    "writer table equal the literals used by readers and deleters; (R-14.3) "
    "deletion safety = C08 R-8.3 evaluated here as well; (R-14.4) _move_path "
    "re-points every frame of the returned copy into the target directory and "
    "treat_output registers the returned object."
)
NOT_DECIDED = "numeric round trip to six decimals; existence of files at run time"
ASSUMPTIONS = ["str.format field semantics; os.path.join / basename semantics"]


def r141(ctx):
    rid = "R-14.1"
    tree = ctx.tree
    cls = tree.cls(FORMATTER, "PathExtFormatter")
    fmt_f = [s for s in cls.body if isinstance(s, FUNC) and s.name == "format"][0]
    fl = flow_of(fmt_f)
    cfg = fl.cfg
    # FMT field count
    FMT = None
    for st in cls.body:
        if isinstance(st, ast.Assign) and isinstance(st.targets[0], ast.Name) and st.targets[0].id == "FMT":
            FMT = const_fold(st.value)
    if FMT is None:
        raise AnalysisError("R-14.1: PathExtFormatter.FMT not found")
    nfields = len([f for f in string.Formatter().parse(FMT) if f[1] is not None])
    calls = [c for c in walk_local(fmt_f) if isinstance(c, ast.Call) and isinstance(c.func, ast.Attribute) and c.func.attr == "format" and "FMT" in ast.unparse(c.func.value)]
    if not calls:
        raise AnalysisError("R-14.1: FMT.format(...) call not found")
    call = calls[0]
    if nfields != 4 or len(call.args) != nfields:
        ctx.bad(rid, call, f"traj.txt rows have {nfields} format fields but {len(call.args)} values are formatted / the reader expects 4 columns")
    else:
        ctx.ok(rid, call, "traj.txt rows: 4 format fields, 4 values")
    at = cfg.node_of(call)
    roles = {}
    for i, a in enumerate(call.args):
        role = None
        if isinstance(a, ast.Name):
            for d, sfx in fl.rd(a.id, at):
                node = d.value
                if isinstance(node, ast.IfExp) and ast.unparse(node.test).endswith(".vel_rev"):
                    try:
                        bv, ov = ast.literal_eval(node.body), ast.literal_eval(node.orelse)
                    except Exception:
                        bv = ov = None
                    role = "vel:-1=reversed" if (bv, ov) == (-1, 1) else f"vel:{bv}/{ov}"
        for kind, node, sat, extra in ([] if role else fl.sources(a, at)):
            if kind == "expr" and isinstance(node, ast.Call) and dotted(node.func) == "os.path.basename":
                for k2, n2, s2, e2 in fl.sources(node.args[0], sat):
                    if k2 == "unpack" and n2.index == (0,) and ast.unparse(n2.value).endswith(".config"):
                        role = "file"
            elif kind == "unpack" and ast.unparse(node.value).endswith(".config"):
                role = "file-unshortened" if node.index == (0,) else ("index" if node.index == (1,) else role)
            elif kind == "expr" and isinstance(node, ast.Constant) and node.value == 0 and role is None:
                role = role or "index"
            elif kind == "expr" and isinstance(node, ast.IfExp) and ast.unparse(node.test).endswith(".vel_rev"):
                b, o = node.body, node.orelse
                try:
                    bv, ov = ast.literal_eval(b), ast.literal_eval(o)
                except Exception:
                    bv = ov = None
                role = "vel:-1=reversed" if (bv, ov) == (-1, 1) else f"vel:{bv}/{ov}"
            elif kind == "iter" and node.index == (0,):
                role = "step"
        roles[i] = role
    want = {0: "step", 1: "file", 2: "index", 3: "vel:-1=reversed"}
    for i, w in want.items():
        if roles.get(i) == w:
            ctx.ok(rid, call.args[i], f"writer: column {i} <- {w}")
        else:
            ctx.bad(rid, call.args[i] if i < len(call.args) else call, f"traj.txt writer: column {i} carries {roles.get(i)!r}, the reader (load_path) expects {w!r} there",
                    construct=f"FMT.format column {i}: {short(call.args[i], 40) if i < len(call.args) else '-'}")
    # reader
    lp = tree.func(PATH, "load_path")
    lfl = flow_of(lp)
    seen = {}
    # row variables: targets of the loops over the rows of the trajectory table (any naming)
    rowvars = set()
    # names holding the table itself (`snapshots = traj["data"]`)
    table_names = {n.targets[0].id for n in walk_local(lp) if isinstance(n, ast.Assign) and isinstance(n.targets[0], ast.Name) and "'data'" in ast.unparse(n.value).replace('"', "'") and not isinstance(n.value, ast.Call)}
    for L in [x for x in walk_local(lp) if isinstance(x, ast.For)]:
        if "'data'" in ast.unparse(L.iter).replace('"', "'") or any(isinstance(x, ast.Name) and x.id in table_names for x in ast.walk(L.iter)):
            for t_ in ast.walk(L.target):
                if isinstance(t_, ast.Name):
                    rowvars.add(t_.id)

    def row_cols(v):
        return [ast.literal_eval(s_.slice) for s_ in ast.walk(v) if isinstance(s_, ast.Subscript) and isinstance(s_.value, ast.Name) and s_.value.id in rowvars and isinstance(s_.slice, ast.Constant)]

    for n in walk_local(lp):
        if isinstance(n, ast.Assign) and len(n.targets) == 1:
            v = n.value
            cols = row_cols(v)
            if not cols:
                continue
            has_cmp = any(isinstance(x, ast.Compare) and any(isinstance(c_, ast.UnaryOp) and isinstance(c_.op, ast.USub) or (isinstance(c_, ast.Constant) and c_.value == -1) for c_ in x.comparators + [x.left]) for x in ast.walk(v))
            if isinstance(v, ast.Call) and dotted(v.func) == "os.path.join":
                sub = [a.value for a in v.args if isinstance(a, ast.Constant)]
                seen["file"] = (cols[0], sub, n)
            elif has_cmp:
                seen["vel"] = (cols[0], n)
            elif isinstance(v, ast.Call) and dotted(v.func) == "int":
                seen["index"] = (cols[0], n)
    exp = {"file": 1, "index": 2, "vel": 3}
    for role, col in exp.items():
        if role in seen and seen[role][0] == col:
            ctx.ok(rid, seen[role][-1], f"reader: {role} taken from column {col}")
        else:
            ctx.bad(rid, seen[role][-1] if role in seen else lp, f"load_path takes the {role} from column {seen.get(role, (None,))[0]} but the writer puts it in column {col}")
    # frame fields assigned from the rewritten columns
    assigns = {}
    for n in walk_local(lp):
        if isinstance(n, ast.Assign) and isinstance(n.targets[0], ast.Attribute) and n.targets[0].attr in ("config", "vel_rev"):
            assigns[n.targets[0].attr] = n
    okf = False
    if "config" in assigns and "vel_rev" in assigns:
        cv, vv = assigns["config"].value, assigns["vel_rev"].value
        if isinstance(cv, ast.Tuple) and len(cv.elts) == 2 and [row_cols(e) for e in cv.elts] == [[1], [2]] and row_cols(vv) == [3] and isinstance(vv, ast.Subscript):
            okf = True
    if okf:
        ctx.ok(rid, assigns["config"], "frame.config = (column 1, column 2), frame.vel_rev = column 3")
    else:
        ctx.bad(rid, assigns.get("config", lp), "load_path does not assign frame.config / frame.vel_rev from columns (1, 2) / 3")
    # sub-directory name agrees
    sub_r = seen.get("file", (None, [], None))[1]
    out = tree.func(FORMATTER, "PathStorage.output")
    sub_w = [a.value for n in walk_local(out) if isinstance(n, ast.Call) and dotted(n.func) == "os.path.join" for a in n.args if isinstance(a, ast.Constant)]
    to = tree.func(REPEX, "REPEX_state.treat_output")
    sub_d = [a.value for n in walk_local(to) if isinstance(n, ast.Call) and dotted(n.func) == "os.rmdir" for c in ast.walk(n) if isinstance(c, ast.Call) and dotted(c.func) == "os.path.join" for a in c.args if isinstance(a, ast.Constant)]
    if sub_r and sub_w and set(sub_r) == set(sub_w) and (not sub_d or set(sub_d) <= set(sub_w)):
        ctx.ok(rid, out, f"trajectory sub-directory {sub_w} agrees between PathStorage.output, load_path and the deletion code")
    else:
        ctx.bad(rid, out, f"trajectory sub-directory differs: stored under {sub_w}, loaded from {sub_r}, removed as {sub_d}: stored paths cannot be loaded / are not deleted")


def r142(ctx):
    rid = "R-14.2"
    tree = ctx.tree
    # order: writer adds one leading column (format_data(i, phasepoint.order)); reader drops [:, 1:]
    of = tree.cls(FORMATTER, "OrderFormatter")
    fd = [s for s in of.body if isinstance(s, FUNC) and s.name == "format_data"][0]
    lead = 0
    appended = {c.func.value.id for c in walk_local(fd) if isinstance(c, ast.Call) and isinstance(c.func, ast.Attribute) and c.func.attr in ("append", "extend") and isinstance(c.func.value, ast.Name)}
    for n in walk_local(fd):
        if isinstance(n, ast.Assign) and isinstance(n.value, ast.List) and isinstance(n.targets[0], ast.Name) and n.targets[0].id in appended:
            lead = len(n.value.elts)
    if lead == 0:
        # `<row format>.format(step, *orderdata)`: the positional arguments before the starred order parameters lead the row
        for c_ in walk_local(fd):
            if isinstance(c_, ast.Call) and isinstance(c_.func, ast.Attribute) and c_.func.attr == "format" and any(isinstance(a_, ast.Starred) for a_ in c_.args):
                lead = next(i_ for i_, a_ in enumerate(c_.args) if isinstance(a_, ast.Starred))
    if lead == 0:
        raise AnalysisError("R-14.2: how OrderFormatter.format_data lays out a row was not recognised (cannot decide)")
    lp = tree.func(PATH, "load_path")
    drop = None
    for n in walk_local(lp):
        if isinstance(n, ast.Subscript) and isinstance(n.slice, ast.Tuple) and len(n.slice.elts) == 2 and isinstance(n.slice.elts[1], ast.Slice):
            lo = n.slice.elts[1].lower
            # the sliced object comes from <order file>.load(): look through temporaries
            base = n.value
            txt = ast.unparse(base)
            lfl = flow_of(lp)
            depth = 0
            while ".load()" not in txt and depth < 4:
                b2 = base
                while isinstance(b2, (ast.Subscript, ast.Attribute)):
                    b2 = b2.value
                if not isinstance(b2, ast.Name):
                    break
                e2, _ = deref(lfl, b2, lfl.cfg.node_of(n))
                if e2 is b2:
                    break
                base, txt = e2, ast.unparse(e2)
                depth += 1
            if lo is not None and ".load()" in txt and "rder" in txt:
                drop = ast.literal_eval(lo)
                site = n
    if lead == 1 and drop == 1:
        ctx.ok(rid, site, "order.txt: writer emits [step] + order, reader drops exactly one leading column")
    else:
        ctx.bad(rid, lp, f"order.txt: writer emits {lead} leading column(s) before the order parameters, reader drops {drop}: order parameters shift by a column")
    # energy
    ef = tree.cls(FORMATTER, "EnergyFormatter")
    terms = None
    for st in ef.body:
        if isinstance(st, ast.Assign) and isinstance(st.targets[0], ast.Name) and st.targets[0].id == "ENERGY_TERMS":
            terms = const_fold(st.value)
        if isinstance(st, ast.Assign) and isinstance(st.targets[0], ast.Name) and st.targets[0].id == "ENERGY_FMT":
            efmt = const_fold(st.value)
    if not terms:
        raise AnalysisError("R-14.2: ENERGY_TERMS not found")
    ap = [s for s in ef.body if isinstance(s, FUNC) and s.name == "apply_format"][0]
    ld = [s for s in ef.body if isinstance(s, FUNC) and s.name == "load"][0]
    def off(e, v):
        """e == v + k  ->  k  (None otherwise)"""
        if isinstance(e, ast.Name) and e.id == v:
            return 0
        if isinstance(e, ast.BinOp) and isinstance(e.op, (ast.Add, ast.Sub)):
            l, r = e.left, e.right
            if isinstance(l, ast.Name) and l.id == v and isinstance(r, ast.Constant) and isinstance(r.value, int):
                return r.value if isinstance(e.op, ast.Add) else -r.value
            if isinstance(e.op, ast.Add) and isinstance(r, ast.Name) and r.id == v and isinstance(l, ast.Constant) and isinstance(l.value, int):
                return l.value
        return None

    # writer: column(term t) = start + (offset of the FMT index w.r.t. the enumerate variable)
    w_shift = None
    for n in walk_local(ap):
        if isinstance(n, ast.For) and isinstance(n.iter, ast.Call) and last_name(n.iter) == "enumerate" and n.iter.args and ast.unparse(n.iter.args[0]) == "self.ENERGY_TERMS" and isinstance(n.target, ast.Tuple) and isinstance(n.target.elts[0], ast.Name):
            st_ = n.iter.args[1] if len(n.iter.args) > 1 else next((k.value for k in n.iter.keywords if k.arg == "start"), None)
            start = st_.value if isinstance(st_, ast.Constant) else (0 if st_ is None else None)
            v = n.target.elts[0].id
            offs = {off(s_.slice, v) for s_ in walk_local(n) if isinstance(s_, ast.Subscript) and ast.unparse(s_.value) == "self.ENERGY_FMT"}
            if start is not None and len(offs) == 1 and None not in offs:
                w_shift = start + offs.pop()
    w_ok = w_shift is not None
    # reader: data[:, v + c] is stored under ENERGY_TERMS[v + b]  ->  column - term index = c - b
    r_shift = None
    lfl = flow_of(ld)
    for n in walk_local(ld):
        if isinstance(n, ast.Assign) and isinstance(n.targets[0], ast.Subscript) and isinstance(n.value, ast.Subscript) and isinstance(n.value.slice, ast.Tuple) and len(n.value.slice.elts) == 2 and isinstance(n.value.slice.elts[0], ast.Slice):
            keyexpr = deref(lfl, n.targets[0].slice, lfl.cfg.node_of(n))[0]
            if isinstance(keyexpr, ast.Subscript) and ast.unparse(keyexpr.value) == "self.ENERGY_TERMS":
                names_ = [x.id for x in ast.walk(keyexpr.slice) if isinstance(x, ast.Name)]
                if len(names_) == 1:
                    b_, c_ = off(keyexpr.slice, names_[0]), off(n.value.slice.elts[1], names_[0])
                    if b_ is not None and c_ is not None:
                        r_shift = c_ - b_
    r_ok = r_shift is not None and w_shift == r_shift == 1
    if w_ok and r_ok and len(efmt) >= 1 + len(terms):
        ctx.ok(rid, ap, f"energy.txt: writer and reader index the same ENERGY_TERMS {terms} in the same order after one step column")
    else:
        ctx.bad(rid, ap, "energy.txt: writer and reader do not index one ENERGY_TERMS table in the same order (columns swapped on reading)")
    le = tree.func(PATH, "_load_energies_for_path")
    ue = tree.func(PATH, "Path.update_energies")
    params = [a.arg for a in ue.args.args][1:]
    for c in [c for c in walk_local(le) if isinstance(c, ast.Call) and last_name(c) == "update_energies"]:
        got = []
        lefl = flow_of(le)
        for i, a in enumerate(c.args):
            got.append((params[i] if i < len(params) else "?", last_key(deref(lefl, a, lefl.cfg.node_of(c))[0])))
        for k in c.keywords:
            got.append((k.arg, last_key(deref(lefl, k.value, lefl.cfg.node_of(c))[0])))
        if all(p == k for p, k in got) and len(got) == 2:
            ctx.ok(rid, c, f"update_energies receives {got} - each parameter gets its own column")
        else:
            ctx.bad(rid, c, f"update_energies parameters {params} receive columns {[k for _, k in got]}: kinetic and potential energies are swapped on loading", construct=short(c, 80))
    # file names
    ps = tree.cls(FORMATTER, "PathStorage")
    names = {}
    for st in ps.body:
        if isinstance(st, (ast.Assign, ast.AnnAssign)):
            t = st.targets[0] if isinstance(st, ast.Assign) else st.target
            if isinstance(t, ast.Name) and t.id == "formatters" and isinstance(st.value, ast.Dict):
                for k, v in zip(st.value.keys, st.value.values):
                    if isinstance(v, ast.Dict):
                        for kk, vv in zip(v.keys, v.values):
                            if isinstance(kk, ast.Constant) and kk.value == "file" and isinstance(vv, ast.Constant):
                                names[k.value] = vv.value
    if set(names) != {"order", "energy", "traj"}:
        raise AnalysisError(f"R-14.2: PathStorage.formatters table not understood: {names}")
    lits = {"load_path": set(), "_load_energies_for_path": set(), "setup_config": set(), "treat_output": set()}
    for rel, q in ((PATH, "load_path"), (PATH, "_load_energies_for_path"), (SETUP, "setup_config"), (REPEX, "REPEX_state.treat_output")):
        g = tree.func(rel, q)
        for n in walk_local(g):
            if isinstance(n, ast.Constant) and isinstance(n.value, str) and n.value.endswith(".txt") and " " not in n.value:
                par = getattr(n, "_parent", None)
                if isinstance(par, ast.Call) and dotted(par.func) == "os.path.join" and len(par.args) < 2:
                    continue  # not a file inside a path directory
                if isinstance(par, ast.Call) and dotted(par.func) == "os.path.join" and any("data_dir" in ast.unparse(a_) for a_ in par.args if a_ is not n):
                    continue  # a file of the data directory (the run's data file), not of a stored path
                lits[q.split(".")[-1]].add(n.value)
    want = {"load_path": {names["traj"], names["order"]}, "_load_energies_for_path": {names["energy"]}, "setup_config": {names["traj"]}, "treat_output": set(names.values())}
    for q, w in want.items():
        if lits[q] == w:
            ctx.ok(rid, tree.func(PATH if q.startswith(("load", "_load")) else (SETUP if q == "setup_config" else REPEX), q if q != "treat_output" else "REPEX_state.treat_output"), f"{q}: file names {sorted(w)} equal the writer's table")
        else:
            ctx.bad(rid, tree.func(PATH if q.startswith(("load", "_load")) else (SETUP if q == "setup_config" else REPEX), q if q != "treat_output" else "REPEX_state.treat_output"),
                    f"{q} uses file names {sorted(lits[q])} but PathStorage writes {sorted(w)}", construct=f"{q}: {sorted(lits[q])} vs {sorted(w)}")


def r143(ctx):
    """Deletion safety: the C08 rule, evaluated under C14 as well."""
    from . import c08

    class Proxy:
        def __init__(self, ctx):
            self._c = ctx
            self.tree = ctx.tree

        def ok(self, rid, node, what, nontrivial=True):
            self._c.ok("R-14.3", node, what, nontrivial)

        def bad(self, rid, node, message, **kw):
            self._c.bad("R-14.3", node, message, **kw)

        def note(self, m):
            self._c.note(m)

    c08.r83(Proxy(ctx))


def r144(ctx):
    rid = "R-14.4"
    tree = ctx.tree
    mp = tree.func(FORMATTER, "PathStorage._move_path")
    fl = flow_of(mp)
    cfg = fl.cfg
    # config stores on frames of the copy come from _generate_file_names(..., target_dir)
    stores = [n for n in walk_local(mp) if isinstance(n, ast.Assign) and isinstance(n.targets[0], ast.Attribute) and n.targets[0].attr == "config"]
    if not stores:
        ctx.bad(rid, mp, "_move_path does not re-point the frames of the stored path: they keep referencing the worker directory, whose files are moved away")
    for st in stores:
        deps = fl.deps(st.value, cfg.node_of(st))
        from_gen = any(k == "call" and key.endswith("_generate_file_names") for k, key in deps)
        # the frames are those of the copy
        loops = [l for l in walk_local(mp) if isinstance(l, ast.For) and st in list(walk_local(l))]
        # the copy: the local bound to <param>.copy() that the function returns
        copies = {n_.targets[0].id for n_ in walk_local(mp) if isinstance(n_, ast.Assign) and isinstance(n_.targets[0], ast.Name) and isinstance(n_.value, ast.Call) and isinstance(n_.value.func, ast.Attribute) and n_.value.func.attr == "copy" and not n_.value.args}
        over_copy = any(f"{cn}.phasepoints" in ast.unparse(l.iter) for l in loops for cn in copies)
        if from_gen and over_copy:
            ctx.ok(rid, st, "every frame of the returned copy is re-pointed to the name generated under target_dir")
        else:
            ctx.bad(rid, st, "_move_path re-points frames with names that do not come from _generate_file_names(target_dir) or not on the returned copy")
    gen = tree.func(FORMATTER, "_generate_file_names")
    gfl = flow_of(gen)
    okg = False
    gparams = [a.arg for a in gen.args.args]
    tdir = gparams[1] if len(gparams) > 1 else "target_dir"
    for n in walk_local(gen):
        if isinstance(n, ast.Assign) and isinstance(n.value, ast.Call) and dotted(n.value.func) == "os.path.join":
            if n.value.args and path_of(n.value.args[0]) == tdir:
                okg = True
                ctx.ok(rid, n, "_generate_file_names: destination = os.path.join(target_dir, <file name>)")
    if not okg:
        ctx.bad(rid, gen, "_generate_file_names does not place destinations under target_dir")
    rets = [r for r in walk_local(mp) if isinstance(r, ast.Return)]
    copies = {n_.targets[0].id for n_ in walk_local(mp) if isinstance(n_, ast.Assign) and isinstance(n_.targets[0], ast.Name) and isinstance(n_.value, ast.Call) and isinstance(n_.value.func, ast.Attribute) and n_.value.func.attr == "copy" and not n_.value.args}
    if all(path_of(r.value) in copies for r in rets) and rets:
        ctx.ok(rid, rets[0], "_move_path returns the re-pointed copy")
    else:
        ctx.bad(rid, mp, "_move_path does not return the re-pointed copy")
    # output() returns it and treat_output registers the returned object
    out = tree.func(FORMATTER, "PathStorage.output")
    ofl = flow_of(out)
    for r in [r for r in walk_local(out) if isinstance(r, ast.Return)]:
        srcs = ofl.sources(r.value, ofl.cfg.node_of(r))
        if srcs and all(k == "expr" and isinstance(n, ast.Call) and last_name(n) == "_move_path" for k, n, _, _ in srcs):
            ctx.ok(rid, r, "PathStorage.output returns the path returned by _move_path")
        else:
            ctx.bad(rid, r, "PathStorage.output returns the path it was given, not the one whose frames point into the archive")
    to = tree.func(REPEX, "REPEX_state.treat_output")
    tfl = flow_of(to)
    reg = [n for n in walk_local(to) if isinstance(n, ast.Dict) and any(isinstance(k, ast.Constant) and k.value == "adress" for k in n.keys) and any(isinstance(k, ast.Constant) and k.value == "frac" for k in n.keys)]
    for d in reg:
        v = [vv for k, vv in zip(d.keys, d.values) if isinstance(k, ast.Constant) and k.value == "adress"][0]
        base = v.value if isinstance(v, ast.Attribute) else v
        srcs = tfl.sources(base, tfl.cfg.node_of(d))
        if srcs and all(k == "expr" and isinstance(n, ast.Call) and dotted(n.func).endswith("pstore.output") for k, n, _, _ in srcs):
            ctx.ok(rid, d, "treat_output registers the files ('adress') of the path returned by pstore.output (inside the path's own directory)")
        else:
            ctx.bad(rid, d, "treat_output registers the file list of the path as it was in the worker directory, not of the stored copy: delete_old would later remove nothing / the wrong files")
    addt = [c for c in walk_local(to) if isinstance(c, ast.Call) and is_self_attr(c.func, "add_traj")]
    for c in addt:
        a = c.args[1] if len(c.args) > 1 else kwarg(c, "traj")
        srcs = tfl.sources(a, tfl.cfg.node_of(c)) if a is not None else []
        stored = [s for s in srcs if s[0] == "expr" and isinstance(s[1], ast.Call) and dotted(s[1].func).endswith("pstore.output")]
        other = [s for s in srcs if s not in stored]
        # un-replaced (rejected) jobs keep their old, already stored path: sub:/unpack from picked
        if stored:
            ctx.ok(rid, c, "the path inserted into the live table is the stored copy (or the unchanged old path on rejection)")
        else:
            ctx.bad(rid, c, "the live table receives a path object that still references files in the worker directory")


def r145(ctx):
    """Values are written as they are: no `value or default` (0.0 is a legal energy / order)."""
    from .shared import numeric_or_default, numeric_option_truthiness
    n = numeric_or_default(ctx, "R-14.5", [FORMATTER, PATH], "a stored energy / order parameter of exactly 0.0 would be written as the default, e.g. nan")
    cls = ctx.tree.cls(FORMATTER, "EnergyFormatter")
    ap = [s for s in cls.body if isinstance(s, FUNC) and s.name == "apply_format"][0]
    # the None test of the energy writer is an identity test
    tests = [t for t in walk_local(ap) if isinstance(t, ast.If)]
    ok = any(isinstance(t.test, ast.Compare) and isinstance(t.test.ops[0], (ast.Is, ast.IsNot)) and isinstance(t.test.comparators[0], ast.Constant) and t.test.comparators[0].value is None for t in tests)
    truthy = [t for t in tests if isinstance(t.test, ast.Name) or (isinstance(t.test, ast.UnaryOp) and isinstance(t.test.operand, ast.Name))]
    if truthy:
        ctx.bad("R-14.5", truthy[0], "EnergyFormatter.apply_format decides 'no value' by truthiness: an energy of exactly 0.0 is written as nan", construct=short(truthy[0].test, 50))
    elif ok or n == 0:
        ctx.ok("R-14.5", ap, "energy writer: missing values are detected with `is None`; no `value or default` in the path-file writers/readers")


def r147(ctx):
    """The text files of a stored path are written from scratch: load_path reads the first
    block of order.txt / traj.txt / energy.txt, so a file opened for appending under a path
    number whose directory already exists reads back the *old* path."""
    rid = "R-14.7"
    g = ctx.tree.func(FORMATTER, "PathStorage.output_path_files")
    n = 0
    for c in [c for c in walk_local(g) if isinstance(c, ast.Call) and dotted(c.func) == "open"]:
        n += 1
        mode = kwarg(c, "mode", 1)
        if isinstance(mode, ast.Constant) and isinstance(mode.value, str) and mode.value.startswith("w"):
            ctx.ok(rid, c, "path text files are opened 'w': what is read back is the path that was stored")
        else:
            ctx.bad(rid, c, "a path's text file is not opened with mode 'w': stored under a path number whose directory already holds files, the new block is appended and load_path reads the stale first block (length, frame references, order parameters of another path)",
                    construct="open(..., mode=" + (ast.unparse(mode) if mode is not None else "<default>") + ") in output_path_files")
    if n == 0:
        raise AnalysisError("R-14.7: no open() call in PathStorage.output_path_files")


def r148(ctx):
    """load_path returns one frame per row of traj.txt: in the loop over the rows, every
    iteration adds its frame through an operation that cannot refuse. `Path.append` refuses
    (returns False) once the path holds `maxlen` frames - and a freshly constructed Path has the
    default limit, not the run's `maxlength`, which load_paths_from_disk sets only afterwards."""
    rid = "R-14.8"
    tree = ctx.tree
    f = tree.func(PATH, "load_path")
    fl = flow_of(f)
    cfg = fl.cfg
    loops = [l for l in walk_local(f) if isinstance(l, ast.For) and any(isinstance(c, ast.Call) and last_name(c) == "System" for c in ast.walk(l))]
    if not loops:
        raise AnalysisError("R-14.8: the frame-building loop of load_path was not found")
    pa = tree.func(PATH, "Path.append")
    pcfg = cfg_of(pa)
    adds = {nd for c in walk_local(pa) if isinstance(c, ast.Call) and isinstance(c.func, ast.Attribute) and c.func.attr == "append" for nd in pcfg.nodes_of(c)}
    refuses = pcfg.reaches(pcfg.entry, pcfg.exit, avoid=adds, labels_excluded=("exc",))
    for L in loops:
        frames = {t.id for st in ast.walk(L) if isinstance(st, ast.Assign) and isinstance(st.value, ast.Call) and last_name(st.value) == "System" for t in st.targets if isinstance(t, ast.Name)}
        apps = [c for c in ast.walk(L) if isinstance(c, ast.Call) and isinstance(c.func, ast.Attribute) and c.func.attr == "append" and c.args and isinstance(c.args[0], ast.Name) and c.args[0].id in frames]
        if not apps:
            ctx.bad(rid, L, "load_path builds frames that it never adds to the path", construct="frame loop without append")
            continue
        head = cfg.node_of(L)
        app_nodes = {nd for c in apps for nd in cfg.nodes_of(c)}
        if head.id in cfg.reachable(head, avoid=app_nodes, labels_excluded=("exc",)) and any(True for _ in [1]):
            body_first = [s for s, lab in cfg.succ[head.id] if lab not in ("exc", "exit", "loop-exit")]
            # an iteration that reaches the next one without an append
            skipping = any(head.id in cfg.reachable(cfg.nodes[b], avoid=app_nodes, labels_excluded=("exc",)) for b in body_first if cfg.nodes[b].ast is not None and any(cfg.nodes[b].ast is x for x in ast.walk(L) if x is not L))
            if skipping:
                ctx.bad(rid, L, "an iteration of load_path's frame loop can finish without adding its frame: the loaded path is shorter than the stored one", construct="frame loop: iteration without append")
                continue
        for c in apps:
            recv = c.func.value
            if isinstance(recv, ast.Attribute) and recv.attr == "phasepoints":
                ctx.ok(rid, c, "every row's frame is appended to the frame list itself (list.append cannot refuse): same length after reloading")
                continue
            srcs = fl.sources(recv, cfg.node_of(c))
            is_path = srcs and all(kind == "expr" and isinstance(node, ast.Call) and last_name(node) in ("Path", "empty_path") for kind, node, sat, _ in srcs)
            st = getattr(c, "_parent", None)
            discarded = isinstance(st, ast.Expr)
            if is_path and refuses and discarded:
                limit = [k for kind, node, sat, _ in srcs for k in node.keywords if k.arg == "maxlen"]
                ctx.bad(rid, c, "load_path adds the stored frames with Path.append, which silently refuses once the path holds `maxlen` frames, and ignores the result; the path was just constructed with " + ("the limit " + short(limit[0].value, 30) if limit else "the default limit (100000)") + ", the run's maxlength is applied only later: a stored path longer than that comes back truncated (different length, end point and last frames)",
                        construct=short(c, 60))
            elif is_path and refuses:
                ctx.ok(rid, c, "Path.append's result is kept (a refusal is visible to the caller)")
            else:
                ctx.ok(rid, c, "frames are added by an operation that cannot refuse")


def r1410(ctx):
    """One row per frame. The text files of a stored path are read back by row position
    (update_energies / the order array are assigned frame by frame in file order): every path
    formatter emits exactly one line for every frame it visits - no frame is skipped."""
    rid = "R-14.10"
    tree = ctx.tree
    n = 0
    for cname in ("OrderPathFormatter", "EnergyPathFormatter", "PathExtFormatter"):
        c = tree.cls(FORMATTER, cname)
        f = next((x for x in c.body if isinstance(x, FUNC) and x.name == "format"), None)
        if f is None:
            raise AnalysisError(f"R-14.10: {cname}.format not found")
        cfg = cfg_of(f)
        loops = [L for L in walk_local(f) if isinstance(L, ast.For) and "phasepoints" in ast.unparse(L.iter)]
        if len(loops) != 1:
            raise AnalysisError(f"R-14.10: {cname}.format has {len(loops)} loops over the path's frames")
        L = loops[0]
        ys = [y for y in ast.walk(L) if isinstance(y, (ast.Yield, ast.YieldFrom))]
        yn = [nd for y in ys for nd in cfg.nodes_of(y)]
        if not yn:
            ctx.bad(rid, L, f"{cname}.format yields no line inside its loop over the frames", construct=f"{cname}: no row per frame")
            n += 1
            continue
        head = cfg.node_of(L)
        body_first = [s2 for s2, lab in cfg.succ[head.id] if lab == "T"]
        skip = any(head.id in cfg.reachable(cfg.nodes[b], avoid=yn, labels_excluded=("exc",)) for b in body_first)
        n += 1
        if skip:
            ctx.bad(rid, L, f"{cname}.format can visit a frame without writing a row for it: the file then has fewer rows than the path has frames, and the loader - which assigns rows to frames by position - gives every frame after the gap the values of a later frame (same length, wrong energies / order parameters after reloading)", construct=f"{cname}: a frame can be skipped")
        else:
            ctx.ok(rid, L, f"{cname}: every frame yields a row")
    return n


def r1411(ctx):
    """Auxiliary files kept with a path: in PathStorage._move_path the entry added to the
    source -> destination table under `os.path.isfile(X)` is the entry *of X* (key X, destination
    with X's base name under target_dir). Writing under another key re-points an entry that is
    already in the table - the trajectory file itself - to the auxiliary file's name."""
    rid = "R-14.11"
    tree = ctx.tree
    f = tree.func(FORMATTER, "PathStorage._move_path")
    fl = flow_of(f)
    cfg = fl.cfg
    # the table: second element unpacked from _generate_file_names(...)
    table = None
    for n in walk_local(f):
        if isinstance(n, ast.Assign) and isinstance(n.targets[0], ast.Tuple) and len(n.targets[0].elts) == 2 and isinstance(n.value, ast.Call) and last_name(n.value) == "_generate_file_names":
            table = n.targets[0].elts[1].id if isinstance(n.targets[0].elts[1], ast.Name) else None
    if table is None:
        raise AnalysisError("R-14.11: the source -> destination table of _move_path was not found")
    stores = [n for n in walk_local(f) if isinstance(n, ast.Assign) and any(isinstance(t, ast.Subscript) and isinstance(t.value, ast.Name) and t.value.id == table for t in n.targets)]
    n_ok = 0
    for st in stores:
        t = next(t for t in st.targets if isinstance(t, ast.Subscript))
        at = cfg.node_of(st)
        tested = []
        for e, tr, _ in cfg.guards(at):
            if tr and isinstance(e, ast.Call) and ast.unparse(e.func) in ("os.path.isfile", "os.path.exists") and e.args:
                tested.append(e.args[0])
        if not tested:
            continue
        n_ok += 1
        key = ast.unparse(t.slice)
        subj = [ast.unparse(x) for x in tested]
        if key in subj:
            # destination carries the tested file's own base name
            kdef, _ = deref(fl, t.slice, at)
            vtxt = ast.unparse(deref(fl, st.value, at)[0])
            base_names = {x.id for x in ast.walk(kdef) if isinstance(x, ast.Name)} if isinstance(kdef, ast.AST) else set()
            dest_names = {x.id for x in ast.walk(deref(fl, st.value, at)[0]) if isinstance(x, ast.Name)}
            if "target_dir" in vtxt and (base_names & dest_names):
                ctx.ok(rid, st, f"the auxiliary file `{key}` whose existence was tested is the one registered, with its own name under target_dir")
            else:
                ctx.bad(rid, st, f"the destination registered for `{key}` is `{vtxt[:60]}`: not that file's own name under the path's directory", construct=f"_move_path: destination of {key}")
        else:
            ctx.bad(rid, st, f"_move_path tests that `{subj[0]}` exists but registers the move under the key `{key}`: an entry that is already in the table (the trajectory file of the path) is re-pointed to the auxiliary file's name, the trajectory is moved under the wrong name, the auxiliary file is left behind, and the live path / traj.txt name a file that no longer exists", construct=f"_move_path: isfile({subj[0]}) but {table}[{key}] = ...")
    if n_ok == 0:
        raise AnalysisError("R-14.11: no registration of an auxiliary file under an existence test found in _move_path")


def r1413(ctx):
    """Rows of order.txt / energy.txt are separated by construction. The readers split rows on
    whitespace, and a format width is only a minimum: a value that fills its width (an energy of
    -1e5, an order parameter of 1e5) touches its neighbour unless a literal separator is written.
    The row builders of OrderFormatter / EnergyFormatter therefore combine the formatted fields
    with `<sep>.join(...)`, sep containing whitespace, or every field format carries a literal
    blank outside its replacement field."""
    import re as _re
    rid = "R-14.13"
    tree = ctx.tree
    targets = [("OrderFormatter", "format_data"), ("EnergyFormatter", "apply_format")]
    for cname, fname in targets:
        cls = tree.cls(FORMATTER, cname)
        f = next((x for x in cls.body if isinstance(x, FUNC) and x.name == fname), None)
        if f is None:
            raise AnalysisError(f"R-14.13: {cname}.{fname} not found")
        fl = flow_of(f)
        rets = [r for r in walk_local(f) if isinstance(r, ast.Return) and r.value is not None]
        if not rets:
            raise AnalysisError(f"R-14.13: {cname}.{fname} returns nothing")
        for r in rets:
            v = r.value
            if isinstance(v, ast.Name):
                stores = [d for d, sfx in fl.rd(v.id, fl.cfg.node_of(r)) if not sfx]
                joins = [d for d in stores if d.kind == "assign" and isinstance(d.value, ast.Call) and isinstance(d.value.func, ast.Attribute) and d.value.func.attr == "join"]
                if len(stores) == 1 and joins:
                    v = joins[0].value
            if isinstance(v, ast.Call) and isinstance(v.func, ast.Attribute) and v.func.attr == "format":
                # `<row format>.format(step, *values)`: the separator is part of the row format
                recv = v.func.value
                if isinstance(recv, ast.Name):
                    recv, _ = deref(fl, recv, fl.cfg.node_of(r))
                elif isinstance(recv, ast.Attribute):
                    st_ = [x for x in walk_local(f) if isinstance(x, ast.Assign) and any(ast.unparse(t_) == ast.unparse(recv) for t_ in x.targets)]
                    if st_:
                        recv = st_[-1].value
                if isinstance(recv, ast.Call) and isinstance(recv.func, ast.Attribute) and recv.func.attr == "join":
                    v = recv
            if isinstance(v, ast.Call) and isinstance(v.func, ast.Attribute) and v.func.attr == "join" and isinstance(v.func.value, ast.Constant) and isinstance(v.func.value.value, str):
                if v.func.value.value and v.func.value.value.strip() == "":
                    ctx.ok(rid, r, f"{cname}.{fname}: the formatted fields are joined with the separator {v.func.value.value!r}")
                else:
                    ctx.bad(rid, r, f"{cname}.{fname} joins the formatted fields with {v.func.value.value!r}, which contains no whitespace: the readers split rows on whitespace", construct=f"{cname}.{fname}: separator {v.func.value.value!r}")
                continue
            # string concatenation of formatted fields: every field format needs its own literal blank
            fmts = []
            for st in cls.body:
                if isinstance(st, ast.Assign) and len(st.targets) == 1 and isinstance(st.targets[0], ast.Name) and st.targets[0].id.endswith("_FMT"):
                    fmts += [c.value for c in ast.walk(st.value) if isinstance(c, ast.Constant) and isinstance(c.value, str)]
            concat = isinstance(v, (ast.Name, ast.BinOp, ast.JoinedStr))
            if concat and fmts:
                bare = [s_ for s_ in fmts[1:] if _re.sub(r"\{[^}]*\}", "", s_).strip(" ") == _re.sub(r"\{[^}]*\}", "", s_) and " " not in _re.sub(r"\{[^}]*\}", "", s_)]
                if bare:
                    ctx.bad(rid, r, f"{cname}.{fname} concatenates the formatted fields without a separator (field formats {bare[:2]} carry no literal blank; a width is only a minimum): a value that fills its column fuses with the previous one, read_some_lines skips the row as malformed, and the loaded path is shorter than the stored one with frames, order parameters and energies mis-paired", construct=f"{cname}.{fname}: fields concatenated without separator")
                else:
                    ctx.ok(rid, r, f"{cname}.{fname}: every field format carries a literal blank")
                continue
            raise AnalysisError(f"R-14.13: how {cname}.{fname} combines its fields (`{short(v, 50)}`) is not one of the modelled forms (cannot decide)")


def r1415(ctx):
    """A row is formatted from the data of that row only. The formatter objects live as long as
    the process (class-level PathStorage), so anything format_data / apply_format stores on
    `self` and reads back - a row format memoised from the first row - is shared by every path
    stored later: a path with more order parameters than the first one silently loses the extra
    columns (str.format ignores surplus arguments), one with fewer raises."""
    rid = "R-14.15"
    tree = ctx.tree
    for cname, fname in (("OrderFormatter", "format_data"), ("EnergyFormatter", "apply_format")):
        cls = tree.cls(FORMATTER, cname)
        f = next((x for x in cls.body if isinstance(x, FUNC) and x.name == fname), None)
        if f is None:
            raise AnalysisError(f"R-14.15: {cname}.{fname} not found")
        stored = [st for st in walk_local(f) if isinstance(st, (ast.Assign, ast.AugAssign, ast.AnnAssign)) for t in (st.targets if isinstance(st, ast.Assign) else [st.target]) if isinstance(t, ast.Attribute) and isinstance(t.value, ast.Name) and t.value.id == "self"]
        if stored:
            t = stored[0].targets[0] if isinstance(stored[0], ast.Assign) else stored[0].target
            ctx.bad(rid, stored[0], f"{cname}.{fname} keeps state between rows (`{short(stored[0], 50)}`): the formatter is shared by all paths of the process, so what the first row fixed (the number of columns of the row format) is applied to every later path - extra order parameters of a later path are silently dropped from order.txt, and load_path returns fewer columns than the accepted path had", construct=f"{cname}.{fname}: state on self.{t.attr}")
        else:
            ctx.ok(rid, f, f"{cname}.{fname} is a function of its arguments and class constants only")


def run(ctx):
    ctx.rule("R-14.5", "path-file writers write values as they are: 0.0 is never mistaken for a missing value", floor=1)
    ctx.rule("R-14.7", "the text files of a stored path are opened for writing from scratch (load_path reads the first block only)", floor=1)
    ctx.rule("R-14.6", "no `for` variable of the path storage / loading code is read after its loop has ended", floor=8)
    ctx.rule("R-14.1", "traj.txt column roles and the trajectory sub-directory agree between writer and reader", floor=9)
    ctx.rule("R-14.2", "order.txt / energy.txt layouts and file names agree between writer and readers", floor=7)
    ctx.rule("R-14.3", "deletion safety (C08 R-8.3)", floor=5)
    ctx.rule("R-14.4", "stored frame references point into the path's own directory; the stored copy is what is registered", floor=6)
    ctx.rule("R-14.12", "the queue of replaced paths whose files are deleted later (delete_old) is per scheduler instance (shared with C06 R-6.4): a second scheduler in the same process must not delete through entries queued by the first", floor=3)
    from . import c06 as _c06
    from .shared import RuleProxy as _RP14
    ctx.attempt(_c06.r64, _RP14(ctx, "R-14.12", " (entries inherited from another run name `load/<n>/accepted/<file>` relative to the working directory: the next replacement deletes the files of a same-numbered live path)"))
    ctx.rule("R-14.13", "rows of order.txt / energy.txt are whitespace separated by construction (explicit separator between the formatted fields; a width is only a minimum)", floor=2)
    ctx.attempt(r1413, ctx)
    ctx.rule("R-14.16", "the restart file never names a path whose files the delete queue has already removed: every step that can delete is committed (each normal path through treat_output writes restart.toml; shared with C08 R-8.11)", floor=1)
    from .shared import commit_every_step as _ces14
    ctx.attempt(_ces14, ctx, "R-14.16", " (with delete_old the files of a replaced path are removed two steps later while restart.toml still lists it as live: load_paths of a restart finds no files)")
    ctx.rule("R-14.15", "a row of order.txt / energy.txt is formatted from that row's data only (no state kept on the shared formatter between rows)", floor=2)
    ctx.attempt(r1415, ctx)
    ctx.attempt(r141, ctx)
    ctx.attempt(r142, ctx)
    ctx.attempt(r143, ctx)
    ctx.attempt(r144, ctx)
    ctx.attempt(r145, ctx)
    ctx.attempt(r147, ctx)
    ctx.rule("R-14.8", "load_path adds one frame per stored row by an operation that cannot refuse (same length after reloading)", floor=1)
    ctx.attempt(r148, ctx)
    ctx.rule("R-14.10", "one row per frame in traj.txt / order.txt / energy.txt (rows are assigned to frames by position when read back)", floor=3)
    ctx.attempt(r1410, ctx)
    ctx.rule("R-14.11", "auxiliary files kept with a path are registered under their own name (the file tested with isfile is the key that is added)", floor=1)
    ctx.attempt(r1411, ctx)
    ctx.rule("R-14.9", "per-iteration data of the storing / loading loops is not taken from an earlier iteration (a local defined only on some paths of a loop and read on all)", floor=5)
    from .shared import stale_iteration_value
    ctx.attempt(stale_iteration_value, ctx, "R-14.9", [FORMATTER, PATH], None, " (a frame of the stored path is given another frame's file reference, so the live path no longer matches what load_path reads back)")
    from .shared import stale_loop_variable
    ctx.attempt(stale_loop_variable, ctx, "R-14.6", [FORMATTER, PATH], None, " (another frame / file than the one being stored or loaded is handled)")


VARIANTS = [
    B("c14-commit-only-on-printing-steps", REPEX, "            self.print_shooted(md_items, pn_news)\n        # save for possible restart\n        self.write_toml()", "            self.print_shooted(md_items, pn_news)\n            # save for possible restart\n            self.write_toml()", "R-14.16", control=True, why="seeded C14_n"),
    B("c14-order-row-format-memoised-on-the-formatter", FORMATTER, "        towrite = [self.ORDER_FMT[0].format(step)]\n        for orderp in orderdata:\n            towrite.append(self.ORDER_FMT[1].format(orderp))\n        out = \" \".join(towrite)\n        return out\n", "        if getattr(self, \"_row_fmt\", None) is None:\n            self._row_fmt = \" \".join([self.ORDER_FMT[0]] + len(orderdata) * [self.ORDER_FMT[1]])\n        return self._row_fmt.format(step, *orderdata)\n", "R-14.15", control=True, why="seeded C14_m"),
    K("c14-keep-order-row-format-per-call", FORMATTER, "        towrite = [self.ORDER_FMT[0].format(step)]\n        for orderp in orderdata:\n            towrite.append(self.ORDER_FMT[1].format(orderp))\n        out = \" \".join(towrite)\n        return out\n", "        row_fmt = \" \".join([self.ORDER_FMT[0]] + len(orderdata) * [self.ORDER_FMT[1]])\n        return row_fmt.format(step, *orderdata)\n"),
    B("c14-energy-row-separator-folded-into-width", FORMATTER, '    ENERGY_FMT = ["{:>10d}"] + 5 * ["{:>14.6f}"]', '    ENERGY_FMT = ["{:>10d}"] + 5 * ["{:>15.6f}"]', "R-14.13", control=True, also=[(FORMATTER, '        return " ".join(towrite)', '        return "".join(towrite)')], why="seeded C14_k"),
    K("c14-keep-energy-row-separator-local", FORMATTER, '        return " ".join(towrite)', '        row = " ".join(towrite)\n        return row'),
    B("c14-delete-queue-shared-between-instances", REPEX, "    traj_data: dict = {}\n", "    traj_data: dict = {}\n    pn_olds: dict = {}\n", "R-14.12", control=True, also=[(REPEX, "        self.pn_olds = {}\n", "")], why="seeded C14_j"),
    K("c14-keep-delete-queue-declared-and-rebound", REPEX, "    traj_data: dict = {}\n", "    traj_data: dict = {}\n    pn_olds: dict = {}\n"),
    B("c14-aux-file-registered-under-trajectory-key", FORMATTER, "                        source[fpath] = os.path.join(target_dir, new_fname)", "                        source[source_file] = os.path.join(target_dir, new_fname)", "R-14.11", control=True, why="seeded C14_i"),
    B("c14-energy-row-skipped-for-empty-frame", FORMATTER, "                energy[key] = getattr(phasepoint, key, None)\n            yield self.apply_format(i, energy)", "                energy[key] = getattr(phasepoint, key, None)\n            if all(v is None for v in energy.values()):\n                continue\n            yield self.apply_format(i, energy)", "R-14.10", control=True, why="seeded C14_h"),
    B("c14-destination-from-earlier-frame", FORMATTER, "            source[pos_file] = dest\n        dest = source[pos_file]\n        new_pos.append((dest, idx))", "            source[pos_file] = dest\n        new_pos.append((dest, idx))", "R-14.9", control=True, why="seeded C14_g"),
    B("c14-load-through-refusing-append", PATH, "        frame.vel_rev = snapshot[3]\n        path.phasepoints.append(frame)", "        frame.vel_rev = snapshot[3]\n        path.append(frame)", "R-14.8", control=True, why="seeded C14_f"),
    K("c14-keep-load-append-alias", PATH, "    path = Path()\n    for snapshot, order in zip(traj[\"data\"], orderdata):", "    path = Path()\n    frames = path.phasepoints\n    for snapshot, order in zip(traj[\"data\"], orderdata):", also=[(PATH, "        frame.vel_rev = snapshot[3]\n        path.phasepoints.append(frame)", "        frame.vel_rev = snapshot[3]\n        frames.append(frame)")]),
    B("c14-path-files-appended", FORMATTER, 'with open(full_path, mode="w", encoding="utf8") as output:', 'with open(full_path, mode="a", encoding="utf8") as output:', "R-14.7", control=True, why="seeded C14_c"),
    K("c14-keep-path-files-positional-mode", FORMATTER, 'with open(full_path, mode="w", encoding="utf8") as output:', 'with open(full_path, "wt", encoding="utf8") as output:'),
    B("c14-order-line-after-loop", FORMATTER, "        for i, phasepoint in enumerate(path.phasepoints):\n            yield self.format_data(i, phasepoint.order)", "        for i, phasepoint in enumerate(path.phasepoints):\n            pass\n        yield self.format_data(i, phasepoint.order)", "R-14.6", control=True),
    B("c14-traj-columns-swapped", FORMATTER, "            yield self.FMT.format(i, filename_short, idx, vel)", "            yield self.FMT.format(i, idx, filename_short, vel)", "R-14.1", control=True),
    B("c14-vel-convention-inverted", FORMATTER, "            vel = -1 if phasepoint.vel_rev else 1", "            vel = 1 if phasepoint.vel_rev else -1", "R-14.1"),
    B("c14-full-filename-written", FORMATTER, "            yield self.FMT.format(i, filename_short, idx, vel)", "            yield self.FMT.format(i, filename, idx, vel)", "R-14.1"),
    B("c14-reader-vel-from-index-column", PATH, "            reverse = int(snapshot[3]) == -1", "            reverse = int(snapshot[2]) == -1", "R-14.1"),
    B("c14-subdir-renamed-on-writer", FORMATTER, '        traj_dir = os.path.join(archive_path, "accepted")', '        traj_dir = os.path.join(archive_path, "traj")', "R-14.1"),
    B("c14-frame-velrev-from-wrong-column", PATH, "        frame.vel_rev = snapshot[3]", "        frame.vel_rev = snapshot[2]", "R-14.1"),
    B("c14-order-keeps-step-column", PATH, 'orderdata = next(orderfile.load())["data"][:, 1:]', 'orderdata = next(orderfile.load())["data"][:, 0:]', "R-14.2", control=True),
    B("c14-energies-swapped", PATH, '                energy["data"]["ekin"], energy["data"]["vpot"]', '                energy["data"]["vpot"], energy["data"]["ekin"]', "R-14.2"),
    B("c14-energy-file-renamed", FORMATTER, '"file": "energy.txt"', '"file": "energies.txt"', "R-14.2"),
    B("c14-energy-reader-offset", FORMATTER, "                data_dict[\"data\"][self.ENERGY_TERMS[i]] = data[:, i + 1]", "                data_dict[\"data\"][self.ENERGY_TERMS[i]] = data[:, i]", "R-14.2"),
    B("c14-delete-current-path", REPEX, '                        for adress in del_dic["adress"]:\n                            os.remove(adress)', '                        for adress in self.traj_data[pn_old]["adress"]:\n                            os.remove(adress)', "R-14.3", control=True),
    B("c14-frames-not-repointed", FORMATTER, "            phasepoint.config = (pos[0], pos[1])\n", "            pass\n", "R-14.4", control=True),
    B("c14-output-returns-input", FORMATTER, "        path = self._move_path(path, traj_dir, self.keep_traj_fnames)\n        return path", "        self._move_path(path, traj_dir, self.keep_traj_fnames)\n        return path", "R-14.4"),
    B("c14-register-worker-files", REPEX, "                out_traj = self.pstore.output(self.cstep, data)\n", "                self.pstore.output(self.cstep, data)\n", "R-14.4"),
    B("c14-dest-not-under-target", FORMATTER, "            dest = os.path.join(target_dir, localfile)\n", "            dest = os.path.join(os.path.dirname(pos_file), localfile)\n", "R-14.4"),
    B("c14-zero-energy-written-as-nan", FORMATTER, "            value = energy.get(key, None)\n            if value is None:\n                towrite.append(self.ENERGY_FMT[i + 1].format(float(\"nan\")))\n            else:\n                towrite.append(self.ENERGY_FMT[i + 1].format(float(value)))", "            value = energy.get(key) or float(\"nan\")\n            towrite.append(self.ENERGY_FMT[i + 1].format(float(value)))", "R-14.5", control=True, why="seeded C14_b"),
    B("c14-zero-energy-truthiness", FORMATTER, "            if value is None:\n                towrite.append(self.ENERGY_FMT[i + 1].format(float(\"nan\")))", "            if not value:\n                towrite.append(self.ENERGY_FMT[i + 1].format(float(\"nan\")))", "R-14.5"),
    K("c14-keep-vel-local-names", FORMATTER, "            vel = -1 if phasepoint.vel_rev else 1\n            yield self.FMT.format(i, filename_short, idx, vel)", "            direction = -1 if phasepoint.vel_rev else 1\n            yield self.FMT.format(i, filename_short, idx, direction)"),
    K("c14-keep-update-energies-keywords", PATH, '                energy["data"]["ekin"], energy["data"]["vpot"]', '                vpot=energy["data"]["vpot"], ekin=energy["data"]["ekin"]'),
    K("c14-keep-basename-inline", FORMATTER, "            filename_short = os.path.basename(filename)\n            if idx is None:\n                idx = 0\n            vel = -1 if phasepoint.vel_rev else 1\n            yield self.FMT.format(i, filename_short, idx, vel)", "            if idx is None:\n                idx = 0\n            vel = -1 if phasepoint.vel_rev else 1\n            yield self.FMT.format(i, os.path.basename(filename), idx, vel)"),
]
