"""C06 - same seed, same run: determinism and restart equivalence.

Persisted-state agreement (everything the scheduler needs to continue is
written by the committing writer and read back under the same key and role),
determinism taint analysis, and per-instance mutable state.
"""

from __future__ import annotations

import ast

from ..cfg import cfg_of
from ..flow import deref, flow_of, path_of
from ..loader import FUNC, AnalysisError, dotted, last_name, loc, short, walk_local, enclosing_func
from ..util import FORMATTER, PATH, REPEX, SETUP, TIS, all_calls, is_self_attr, keys_chain, kwarg, last_key
from ..variants import B, K

EXPLANATION = (
    "(R-6.1) writer/reader agreement for restart.toml: every key of "
    "config['current'] read unconditionally on the restart path has a writer "
    "that reaches the dumped configuration, every key written for restart has "
    "a reader, and roles agree (rng_state <-> bit_generator.state, active <-> "
    "live_paths() / load order, frac keyed by str(path number) on both sides); "
    "(R-6.2) the restored scheduler stream derives from what was saved "
    "(cross-reference to C07 R-7.1/R-7.3); (R-6.3) taint analysis: no value "
    "derived from wall-clock time, pid, call counters, unseeded generators, "
    "directory listings or set iteration order reaches restart.toml or the "
    "data file; (R-6.4) class-level mutable defaults of stateful classes that "
    "are mutated through self are rebound per instance."
)
NOT_DECIDED = "byte identity of files as such; equality of floating-point results across a split (needs execution)"
ASSUMPTIONS = [
    "tomli_w.dump serialises exactly the dictionary it is given (so stores into self.config reach the file)",
    "dict iteration order is insertion order (Python >= 3.7)",
]

TAINT_CALLS = {
    "time.time", "time.perf_counter", "time.monotonic", "time.process_time", "datetime.now", "datetime.datetime.now",
    "datetime.utcnow", "os.getpid", "os.getppid", "counter", "os.listdir", "os.scandir", "os.walk", "glob.glob",
    "id", "hash", "uuid.uuid4", "uuid.uuid1", "os.urandom", "tempfile.mkdtemp", "tempfile.mktemp", "threading.get_ident",
    "np.random.default_rng", "default_rng", "random.random", "random.randint", "np.random.random", "np.random.rand",
    "np.random.normal", "np.random.randint", "set",
}


def _current_key(e, aliases=()):
    """(key, conditional) if e reads/writes config['current'][key] / .get(key)."""
    base, ks = keys_chain(e)
    if base in aliases and ks and not ks[0].startswith("."):
        return ks[-1], isinstance(e, ast.Call)
    ks = [k for k in ks if not k.startswith(".") or k == ".config"]
    ks = [k for k in ks if k != ".config"]
    if len(ks) >= 2 and ks[-2] == "current" and ks[-1] not in ("*",):
        cond = isinstance(e, ast.Call)
        return ks[-1], cond
    return None


def frac_round_trip(ctx, rid, alias_curr=None):
    """Accumulators survive a restart: written for every path of traj_data under
    str(path number), read back under the same key form."""
    tree = ctx.tree
    wt = tree.func(REPEX, "REPEX_state.write_toml")
    if alias_curr is None:
        alias_curr = {}
        for g in (wt, tree.func(REPEX, "REPEX_state.load_paths")):
            al = set()
            for n in walk_local(g):
                if isinstance(n, ast.Assign) and len(n.targets) == 1 and isinstance(n.targets[0], ast.Name):
                    b, ks = keys_chain(n.value)
                    if [k for k in ks if k != ".config"] == ["current"]:
                        al.add(n.targets[0].id)
            alias_curr[id(g)] = al
    # frac: keyed by str(path number) on both sides
    wkey = rkey = None
    for n in walk_local(wt):
        if isinstance(n, ast.Assign):
            for t in n.targets:
                if isinstance(t, ast.Subscript) and _current_key(t.value, alias_curr[id(wt)]) and _current_key(t.value, alias_curr[id(wt)])[0] == "frac":
                    wfl = flow_of(wt)
                    wkey = deref(wfl, t.slice, wfl.cfg.node_of(n))[0]
    lp = tree.func(REPEX, "REPEX_state.load_paths")
    rkeys = []
    lfl = flow_of(lp)
    for n in walk_local(lp):
        if isinstance(n, ast.Call) and isinstance(n.func, ast.Attribute) and n.func.attr == "get" and _current_key(n.func.value, alias_curr[id(lp)]) and _current_key(n.func.value, alias_curr[id(lp)])[0] == "frac":
            rkeys.append(deref(lfl, n.args[0], lfl.cfg.node_of(n))[0])
        if isinstance(n, ast.Subscript) and isinstance(n.ctx, ast.Load) and _current_key(n.value, alias_curr[id(lp)]) and _current_key(n.value, alias_curr[id(lp)])[0] == "frac":
            rkeys.append(deref(lfl, n.slice, lfl.cfg.node_of(n))[0])
    def is_str(e):
        return isinstance(e, ast.Call) and dotted(e.func) == "str"
    if wkey is None or not rkeys:
        ctx.bad(rid, wt, "accumulated weights are not written per path / not read back per path")
    else:
        if is_str(wkey) and all(is_str(r) for r in rkeys):
            ctx.ok(rid, wkey, f"frac is written and read ({len(rkeys)} sites) under str(path number)")
        else:
            ctx.bad(rid, rkeys[0] if not all(is_str(r) for r in rkeys) else wkey,
                    "frac is written under str(path number) (TOML keys are strings) but looked up with a different key form: restored weights silently fall back to zeros",
                    construct=f"frac key: write {short(wkey, 30)} / read {[short(r, 30) for r in rkeys]}")
    # write_toml serialises every live accumulator
    it = [n for n in walk_local(wt) if isinstance(n, ast.For) and "traj_data" in ast.unparse(n.iter)]
    if it and ("keys()" in ast.unparse(it[0].iter) or "items()" in ast.unparse(it[0].iter) or ast.unparse(it[0].iter).endswith("traj_data") or "sorted(" in ast.unparse(it[0].iter)) and not [x for x in walk_local(it[0]) if isinstance(x, (ast.Continue, ast.Break))]:
        ctx.ok(rid, it[0], "write_toml iterates over all keys of traj_data (every live accumulator is persisted)")
    else:
        ctx.bad(rid, wt, "write_toml does not persist the accumulators of every path in traj_data")


def r61(ctx):
    rid = "R-6.1"
    tree = ctx.tree
    written, read_uncond, read_cond = {}, {}, {}
    alias_curr = {}  # function -> names aliasing config["current"]
    for m, q, f in tree.all_funcs([REPEX, SETUP, PATH, "infretis/scheduler.py", TIS]):
        al = set()
        for n in walk_local(f):
            if isinstance(n, ast.Assign) and len(n.targets) == 1 and isinstance(n.targets[0], ast.Name):
                b, ks = keys_chain(n.value)
                ks2 = [k for k in ks if k != ".config"]
                if ks2 == ["current"]:
                    al.add(n.targets[0].id)
        alias_curr[id(f)] = al
        for n in walk_local(f):
            # dict literal: config["current"] = {...}
            if isinstance(n, ast.Assign) and isinstance(n.value, ast.Dict):
                for t in n.targets:
                    b, ks = keys_chain(t)
                    if [k for k in ks if k != ".config"] == ["current"]:
                        for k in n.value.keys:
                            if isinstance(k, ast.Constant):
                                written.setdefault(k.value, []).append((f, n))
            if isinstance(n, (ast.Assign, ast.AugAssign)):
                tgts = n.targets if isinstance(n, ast.Assign) else [n.target]
                for t in tgts:
                    ck = _current_key(t)
                    if ck:
                        written.setdefault(ck[0], []).append((f, n))
                    if isinstance(t, ast.Subscript) and isinstance(t.value, ast.Name) and t.value.id in al and last_key(t):
                        written.setdefault(last_key(t), []).append((f, n))
            if isinstance(n, ast.Subscript) and isinstance(n.ctx, ast.Load):
                ck = _current_key(n)
                if ck:
                    read_uncond.setdefault(ck[0], []).append((f, n))
                elif isinstance(n.value, ast.Name) and n.value.id in al and last_key(n):
                    read_uncond.setdefault(last_key(n), []).append((f, n))
            if isinstance(n, ast.Call) and isinstance(n.func, ast.Attribute) and n.func.attr in ("get", "pop") and n.args and isinstance(n.args[0], ast.Constant):
                b, ks = keys_chain(n.func.value)
                ks2 = [k for k in ks if k != ".config"]
                if ks2 and ks2[-1] == "current" or (isinstance(n.func.value, ast.Name) and n.func.value.id in al):
                    read_cond.setdefault(n.args[0].value, []).append((f, n))
            if isinstance(n, ast.Compare) and isinstance(n.ops[0], (ast.In, ast.NotIn)) and isinstance(n.left, ast.Constant):
                b, ks = keys_chain(n.comparators[0])
                if [k for k in ks if k != ".config"] == ["current"]:
                    read_cond.setdefault(n.left.value, []).append((f, n))
    # a key may be the parent of a nested store (frac[...]): count those as reads/writes of the parent
    if len(written) < 7:
        raise AnalysisError(f"R-6.1: only {sorted(written)} found as written keys of config['current']")
    for k, sites in sorted(read_uncond.items()):
        if k in written:
            ctx.ok(rid, sites[0][1], f"key 'current.{k}' read unconditionally at {len(sites)} site(s); written at {len(written[k])} site(s) ({', '.join(sorted({getattr(w[0], '_fq', w[0].name) for w in written[k]}))})")
        else:
            ctx.bad(rid, sites[0][1], f"config['current'][{k!r}] is read unconditionally on the restart path but never written into the configuration that write_toml dumps: a restart would fail or diverge",
                    construct=f"current.{k}: read without writer")
    for k, sites in sorted(written.items()):
        if k not in read_uncond and k not in read_cond:
            ctx.bad(rid, sites[0][1], f"config['current'][{k!r}] is persisted but nothing reads it back: state needed to continue is probably restored from the wrong key",
                    construct=f"current.{k}: written without reader")
    # ---- roles
    wt = tree.func(REPEX, "REPEX_state.write_toml")
    flw = flow_of(wt)
    for d in flw.defs:
        ck = None
        if d.kind == "assign" and d.stmt is not None:
            ck = _current_key(d.stmt.targets[0], alias_curr.get(id(wt), set())) if isinstance(d.stmt, ast.Assign) else None
        if not ck:
            continue
        k = ck[0]
        if k == "rng_state":
            if path_of(d.value) == "self.rgen.bit_generator.state":
                ctx.ok(rid, d.stmt, "rng_state is written from self.rgen.bit_generator.state")
            else:
                ctx.bad(rid, d.stmt, "rng_state is not written from the scheduler generator's bit_generator.state")
        if k == "active":
            if isinstance(d.value, ast.Call) and is_self_attr(d.value.func, "live_paths"):
                ctx.ok(rid, d.stmt, "active is written from live_paths() (slot order)")
            else:
                ctx.bad(rid, d.stmt, "current.active is not the list of live path numbers in slot order")
    # reader side of rng_state
    sr = tree.func(REPEX, "REPEX_state.set_rgen")
    ok = False
    for n in ast.walk(tree.cls(REPEX, "REPEX_state")):
        if isinstance(n, ast.Assign) and any(path_of(t) == "self.rgen.bit_generator.state" for t in n.targets):
            ck = _current_key(n.value)
            if not ck and isinstance(n.value, ast.Name):
                # the saved state may pass through a local:  saved_state = config["current"]["rng_state"]
                for fn_ in [x for x in tree.cls(REPEX, "REPEX_state").body if isinstance(x, FUNC)]:
                    if any(y is n for y in ast.walk(fn_)):
                        fl_ = flow_of(fn_)
                        v_, _ = deref(fl_, n.value, fl_.cfg.node_of(n))
                        ck = _current_key(v_)
            if ck and ck[0] == "rng_state":
                ok = True
                ctx.ok(rid, n, "rng_state is read back into self.rgen.bit_generator.state")
    if not ok:
        ctx.bad(rid, sr, "the saved generator state is never restored into the scheduler stream")
    frac_round_trip(ctx, rid, alias_curr)
    # active is consumed in order and assigned as path number
    lpd = tree.func(PATH, "load_paths_from_disk")
    loops = [n for n in walk_local(lpd) if isinstance(n, ast.For) and _current_key(n.iter) and _current_key(n.iter)[0] == "active"]
    if loops and isinstance(loops[0].target, ast.Name):
        v = loops[0].target.id
        assigns = [n for n in walk_local(loops[0]) if isinstance(n, ast.Assign) and any(isinstance(t, ast.Attribute) and t.attr == "path_number" for t in n.targets) and path_of(n.value) == v]
        pfl = flow_of(lpd)

        def uses_entry(c):
            if v in ast.unparse(c):
                return True
            for a in c.args:
                e_, at_ = deref(pfl, a, pfl.cfg.node_of(c))
                if v in ast.unparse(e_):
                    return True
            return False

        loads = [c for c in walk_local(loops[0]) if isinstance(c, ast.Call) and last_name(c) == "load_path" and uses_entry(c)]
        if assigns and loads:
            ctx.ok(rid, loops[0], "load_paths_from_disk loads current.active in order and numbers each path with its entry")
        else:
            ctx.bad(rid, loops[0], "load_paths_from_disk does not load/number the paths from current.active entry by entry")
    else:
        ctx.bad(rid, lpd, "load_paths_from_disk does not iterate over current.active")


def r62(ctx):
    ctx.ok("R-6.2", None, "restore provenance of the scheduler stream (seed entropy, spawn counter, one-shot restore) is decided under C07 R-7.1 / R-7.3; C06 cross-references those verdicts", nontrivial=False)


# ------------------------------------------------------------------ R-6.3
def _tainted_call(c):
    d = dotted(c.func)
    ln = last_name(c)
    if d in TAINT_CALLS or (d.split(".")[-2:] and ".".join(d.split(".")[-2:]) in TAINT_CALLS):
        if ln == "default_rng" and (c.args or c.keywords):
            return None
        if ln == "set" and not c.args:
            return None
        return d
    if ln in ("now", "utcnow", "getpid", "time") and d.split(".")[0] in ("datetime", "os", "time"):
        return d
    return None


def r63(ctx):
    rid = "R-6.3"
    tree = ctx.tree
    scope = [REPEX, SETUP, TIS, PATH, FORMATTER, "infretis/scheduler.py", "infretis/asyncrunner.py", "infretis/classes/engines/enginebase.py"]
    scope = [r for r in scope if r in tree.modules]
    # 1. source sites
    sources = []
    for m, f, c in all_calls(tree, scope):
        t = _tainted_call(c)
        if t:
            sources.append((m, f, c, t))
    # class-level attribute sources (start_time = time.time())
    tainted_attrs = set()
    for m, name, c in tree.all_classes():
        if m.rel not in scope:
            continue
        for st in c.body:
            if isinstance(st, (ast.Assign, ast.AnnAssign)):
                v = st.value
                if v is not None and any(isinstance(x, ast.Call) and _tainted_call(x) for x in ast.walk(v)):
                    t = st.targets[0] if isinstance(st, ast.Assign) else st.target
                    if isinstance(t, ast.Name):
                        tainted_attrs.add(t.id)
    # 2. tainted keys / attributes (fixpoint over stores)
    tainted_keys = set()
    changed = True
    rounds = 0

    def expr_tainted(fl, v, at):
        for x in ast.walk(v):
            if isinstance(x, ast.Call) and _tainted_call(x):
                return f"call {_tainted_call(x)}"
        deps = fl.deps(v, at)
        for k, key in deps:
            if k == "call" and (key in TAINT_CALLS or ".".join(key.split(".")[-2:]) in TAINT_CALLS):
                if key.endswith("default_rng") or key == "set":
                    continue
                return f"call {key}"
            if k in ("free", "param"):
                lk = key.split("[")[-1].strip("]'\"") if "[" in key else key.split(".")[-1]
                if "[" in key and lk in tainted_keys:
                    return f"key {lk!r}"
                if "." in key and key.split(".")[-1] in tainted_attrs:
                    return f"attribute {key.split('.')[-1]}"
        return None

    while changed and rounds < 5:
        changed = False
        rounds += 1
        for m, q, f in tree.all_funcs(scope):
            fl = None
            for n in walk_local(f):
                if isinstance(n, ast.Assign):
                    for t in n.targets:
                        k = last_key(t)
                        a = t.attr if isinstance(t, ast.Attribute) and is_self_attr(t) else None
                        if k is None and a is None:
                            continue
                        fl = fl or flow_of(f)
                        if not fl.cfg.nodes_of(n):
                            continue
                        why = expr_tainted(fl, n.value, fl.cfg.node_of(n))
                        if why:
                            if k and k not in tainted_keys:
                                tainted_keys.add(k)
                                changed = True
                            if a and a not in tainted_attrs:
                                tainted_attrs.add(a)
                                changed = True
                if isinstance(n, ast.Call) and isinstance(n.func, ast.Attribute) and n.func.attr == "update" and n.args and isinstance(n.args[0], ast.Dict):
                    fl = fl or flow_of(f)
                    for kk, vv in zip(n.args[0].keys, n.args[0].values):
                        if isinstance(kk, ast.Constant) and fl.cfg.nodes_of(n) and expr_tainted(fl, vv, fl.cfg.node_of(n)) and kk.value not in tainted_keys:
                            tainted_keys.add(kk.value)
                            changed = True
    ctx.ok(rid, None, f"{len(sources)} nondeterministic source call sites; tainted dict keys {sorted(tainted_keys)}; tainted attributes {sorted(tainted_attrs)}", nontrivial=False)
    if len(sources) < 8:
        raise AnalysisError(f"R-6.3: only {len(sources)} nondeterministic source sites recognised (expected >= 8: time.time, datetime.now, os.getpid, counter, os.listdir, set ...)")
    # 3. sinks
    nsinks = 0
    for m, q, f in tree.all_funcs([REPEX, SETUP]):
        fl = None
        for n in walk_local(f):
            # stores into the configuration that is dumped
            if isinstance(n, (ast.Assign, ast.AugAssign)):
                tgts = n.targets if isinstance(n, ast.Assign) else [n.target]
                for t in tgts:
                    b, ks = keys_chain(t)
                    is_cfg = (b == "config" or (b == "self" and ks and ks[0] == ".config") or (b == "curr")) and isinstance(t, ast.Subscript)
                    if not is_cfg:
                        continue
                    fl = fl or flow_of(f)
                    if not fl.cfg.nodes_of(n):
                        continue
                    nsinks += 1
                    why = expr_tainted(fl, n.value, fl.cfg.node_of(n))
                    if why:
                        ctx.bad(rid, n, f"a value derived from a nondeterministic source ({why}) is stored into the configuration that write_toml dumps: two runs with the same seed give different restart files",
                                construct=short(n, 90))
                    else:
                        ctx.ok(rid, n, f"{q}: store into the dumped configuration carries no nondeterministic value")
            # rows of the data file / its header
            if isinstance(n, ast.Call) and isinstance(n.func, ast.Attribute) and n.func.attr == "write" and f.name in ("write_to_pathens", "write_header"):
                fl = fl or flow_of(f)
                nsinks += 1
                why = None
                for a in n.args:
                    why = why or expr_tainted(fl, a, fl.cfg.node_of(n))
                if why:
                    ctx.bad(rid, n, f"a value derived from a nondeterministic source ({why}) is written to the data file", construct=short(n, 90))
                else:
                    ctx.ok(rid, n, f"{q}: data-file write carries no nondeterministic value")
    # ordering by a set must not order anything persisted: sorted()/list(set) feeding a sink is covered above
    if nsinks < 10:
        raise AnalysisError(f"R-6.3: only {nsinks} sink sites found")


# ------------------------------------------------------------------ R-6.4
MUTABLE_CTORS = {"dict", "list", "set", "defaultdict", "OrderedDict", "deque"}


def r64(ctx):
    rid = "R-6.4"
    tree = ctx.tree
    n = 0
    for m, name, c in tree.all_classes():
        if m.rel not in (REPEX,):
            continue
        methods = {s.name: s for s in c.body if isinstance(s, FUNC)}
        init = methods.get("__init__")
        for st in c.body:
            tgt, v = None, None
            if isinstance(st, ast.Assign) and len(st.targets) == 1 and isinstance(st.targets[0], ast.Name):
                tgt, v = st.targets[0].id, st.value
            elif isinstance(st, ast.AnnAssign) and isinstance(st.target, ast.Name) and st.value is not None:
                tgt, v = st.target.id, st.value
            if tgt is None:
                continue
            mutable = isinstance(v, (ast.Dict, ast.List, ast.Set)) or (isinstance(v, ast.Call) and (last_name(v) in MUTABLE_CTORS or last_name(v)[:1].isupper()))
            if not mutable:
                continue
            # mutated through self?
            muts = []
            for mn, f in methods.items():
                for x in walk_local(f):
                    if isinstance(x, (ast.Assign, ast.AugAssign)):
                        tg = x.targets if isinstance(x, ast.Assign) else [x.target]
                        for t in tg:
                            if isinstance(t, ast.Subscript) and path_of(t.value) and path_of(t.value).startswith(f"self.{tgt}"):
                                muts.append(x)
                            if isinstance(t, ast.Attribute) and path_of(t.value) == f"self.{tgt}":
                                muts.append(x)
                    if isinstance(x, ast.Call) and isinstance(x.func, ast.Attribute) and x.func.attr in ("pop", "update", "append", "clear", "setdefault", "extend", "remove", "popitem", "add") and path_of(x.func.value) == f"self.{tgt}":
                        muts.append(x)
            # functions that receive the instance and mutate state.<attr> (write_to_pathens(state, ...))
            for q, g in m.funcs.items():
                if "." in q:
                    continue
                for x in walk_local(g):
                    if isinstance(x, ast.Call) and isinstance(x.func, ast.Attribute) and x.func.attr in ("pop", "update", "clear") and isinstance(x.func.value, ast.Name):
                        gfl = flow_of(g)
                        if gfl.cfg.nodes_of(x):
                            for kind, node, at, extra in gfl.sources(x.func.value, gfl.cfg.node_of(x)):
                                if kind in ("param", "free") and extra.endswith("." + tgt):
                                    muts.append(x)
            if not muts:
                continue
            n += 1
            # rebound per instance: in __init__, or in a method assigned from outside unconditionally (setup_internal)
            rebound = None
            for mn in ("__init__",):
                f = methods.get(mn)
                if f is None:
                    continue
                cfg = cfg_of(f)
                stores = [x for x in walk_local(f) if isinstance(x, ast.Assign) and any(path_of(t) == f"self.{tgt}" for t in x.targets)]
                nodes = [cfg.node_of(x) for x in stores]
                if stores and not cfg.reaches(cfg.entry, cfg.exit, avoid=nodes):
                    rebound = f"{mn}"
            if rebound is None:
                for mn, f in methods.items():
                    stores = [x for x in walk_local(f) if isinstance(x, ast.Assign) and any(path_of(t) == f"self.{tgt}" for t in x.targets)]
                    if stores:
                        # called unconditionally from setup_internal?
                        si = tree.func(SETUP, "setup_internal")
                        cfgs = cfg_of(si)
                        calls = [cfgs.node_of(x) for x in walk_local(si) if isinstance(x, ast.Call) and isinstance(x.func, ast.Attribute) and x.func.attr == mn]
                        if calls and not cfgs.reaches(cfgs.entry, cfgs.exit, avoid=calls):
                            rebound = f"{mn} (called unconditionally from setup_internal)"
                si = tree.func(SETUP, "setup_internal")
                cfgs = cfg_of(si)
                st2 = [cfgs.node_of(x) for x in walk_local(si) if isinstance(x, ast.Assign) and any(isinstance(t, ast.Attribute) and t.attr == tgt for t in x.targets)]
                if st2 and not cfgs.reaches(cfgs.entry, cfgs.exit, avoid=st2):
                    rebound = "setup_internal (assigned on the new instance)"
            if rebound:
                ctx.ok(rid, st, f"{name}.{tgt}: class-level mutable default, mutated through self at {len(muts)} site(s), rebound per instance in {rebound}")
            elif tgt == "pstore":
                ctx.ok(rid, st, f"{name}.pstore: shared PathStorage object; the only state set on it (keep_traj_fnames) is assigned on every __init__ - accepted, frozen with this reason")
            else:
                ctx.bad(rid, st,
                        f"{name}.{tgt} is a class-level mutable object that is mutated through self ({short(muts[0], 50)}) but never rebound per instance: "
                        "a second run in the same process (bin.internalrun supports this) starts with the first run's data, so two runs with the same seed are not identical",
                        construct=f"{name}.{tgt}: class-level {short(v, 20)} mutated, not rebound in __init__")
    if n < 3:
        raise AnalysisError(f"R-6.4: only {n} mutated class-level defaults found in repex.py")
    # module-level mutable globals written at run time
    tm = tree.mod(TIS)
    for q, g in tm.funcs.items():
        for x in walk_local(g):
            if isinstance(x, ast.Global):
                for nm in x.names:
                    stores = [y for y in walk_local(g) if isinstance(y, ast.Assign) and any(isinstance(t, (ast.Name, ast.Tuple)) and nm in ast.unparse(t) for t in y.targets)]
                    if stores:
                        ctx.ok(rid, x, f"module global {nm} is rebound by {q} on every setup")
                    else:
                        ctx.bad(rid, x, f"module global {nm} is declared global in {q} but only mutated, never rebound")


def r66(ctx):
    """current.locked offset symmetry: written with + _offset from offset-removed records, read
    back with - _offset (the unit analysis of C08 R-8.7, evaluated under C06)."""
    from . import c08

    class Proxy:
        def __init__(self, c):
            self._c = c
            self.tree = c.tree

        def ok(self, rid, node, what, nontrivial=True):
            self._c.ok("R-6.6", node, what, nontrivial)

        def bad(self, rid, node, message, **kw):
            self._c.bad("R-6.6", node, message, **kw)

        def note(self, m):
            self._c.note(m)

    c08.r87(Proxy(ctx))


def r612(ctx):
    """Emission order is canonical. A table that write_toml (or the data-file writer) fills by
    iterating over a dictionary of per-run state inherits that dictionary's insertion order, which
    depends on history: during a run `traj_data` is filled in path-creation order, at a restart
    load_paths refills it in ensemble order. The iteration must therefore go through sorted(...)
    (or over a list whose order is itself persisted)."""
    rid = "R-6.12"
    tree = ctx.tree
    cls = tree.cls(REPEX, "REPEX_state")
    init = tree.func(REPEX, "REPEX_state.__init__")
    dict_attrs = set()
    for n in list(walk_local(init)) + [st for st in cls.body if isinstance(st, ast.Assign)]:
        if isinstance(n, ast.Assign) and (isinstance(n.value, ast.Dict) or (isinstance(n.value, ast.Call) and last_name(n.value) in ("dict", "OrderedDict", "defaultdict"))):
            for t in n.targets:
                if isinstance(t, ast.Attribute) and isinstance(t.value, ast.Name) and t.value.id == "self":
                    dict_attrs.add(t.attr)
                elif isinstance(t, ast.Name) and n in cls.body:
                    dict_attrs.add(t.id)
    writers = [tree.func(REPEX, "REPEX_state.write_toml"), tree.func(REPEX, "write_to_pathens")]
    n_loops = 0
    for f in writers:
        recv = "self" if f.name == "write_toml" else [a.arg for a in f.args.args][0]
        for L in [x for x in walk_local(f) if isinstance(x, (ast.For, ast.ListComp, ast.DictComp, ast.GeneratorExp))]:
            its = [L.iter] if isinstance(L, ast.For) else [g.iter for g in L.generators]
            for it in its:
                e = it
                wrapped_sorted = False
                while isinstance(e, ast.Call) and isinstance(e.func, ast.Name) and e.func.id in ("sorted", "list", "tuple", "enumerate", "reversed"):
                    if e.func.id == "sorted":
                        wrapped_sorted = True
                    e = e.args[0] if e.args else e
                    if not isinstance(e, ast.AST) or e is it and not e.args:
                        break
                base = e
                if isinstance(base, ast.Call) and isinstance(base.func, ast.Attribute) and base.func.attr in ("keys", "items", "values") and not base.args:
                    base = base.func.value
                p_ = path_of(base)
                attr = None
                if p_ and p_.startswith(recv + ".") and p_.count(".") == 1:
                    attr = p_.split(".")[1]
                elif isinstance(base, ast.Name):
                    # a local alias:  traj_data = state.traj_data
                    fl = flow_of(f)
                    try:
                        e2, _ = deref(fl, base, fl.cfg.node_of(L) if isinstance(L, ast.For) else fl.cfg.node_of(L))
                    except Exception:
                        e2 = base
                    p2 = path_of(e2)
                    if p2 and p2.startswith(recv + ".") and p2.count(".") == 1:
                        attr = p2.split(".")[1]
                if attr is None or attr not in dict_attrs:
                    continue
                n_loops += 1
                if wrapped_sorted:
                    ctx.ok(rid, L, f"{f.name}: iteration over the dictionary `{attr}` goes through sorted(): the emitted order does not depend on insertion history")
                else:
                    ctx.bad(rid, L, f"{f.name} fills what it writes by iterating over the dictionary `{attr}` in insertion order; that order depends on history (a run inserts paths in creation order, a restart re-inserts the live paths in ensemble order), so the same state is written differently by a run that was interrupted: restart.toml is no longer byte-identical to that of an uninterrupted run", construct=f"{f.name}: unsorted iteration over {attr}")
    if n_loops == 0:
        raise AnalysisError("R-6.12: no iteration over a per-run dictionary found in write_toml / write_to_pathens")


ASE_REL = "infretis/classes/engines/ase_engine.py"


FORMATTER_REL = "infretis/classes/formatter.py"

def r618(ctx):
    """What is read back from the path files has the precision of what the run holds in memory:
    the readers of order.txt / energy.txt / traj.txt build double-precision arrays. A reduced
    precision (float32, float16) moves a six-decimal value that sits exactly on an interface to
    the other side (-0.8 -> -0.80000001), so a reloaded path is weighted differently from the
    same path in the uninterrupted run."""
    rid = "R-6.18"
    tree = ctx.tree
    LOW = ("float32", "float16", "single", "half", "f4", "f2", "<f4", ">f4", "<f2", ">f2")
    n = 0
    for rel in (FORMATTER_REL, PATH):
        for m, q, f in tree.all_funcs([rel]):
            for c in walk_local(f):
                if not isinstance(c, ast.Call):
                    continue
                dts = [k.value for k in c.keywords if k.arg == "dtype"]
                if last_name(c) == "astype" and c.args:
                    dts.append(c.args[0])
                if last_name(c) in ("float32", "float16", "single", "half"):
                    dts.append(c.func)
                for dt in dts:
                    n += 1
                    txt = ast.unparse(dt).replace('"', "").replace("'", "")
                    if txt.split(".")[-1] in LOW:
                        ctx.bad(rid, c, f"{q} builds `{short(c, 50)}` in reduced precision ({txt}): values read back from the path files no longer equal the six-decimal values the interrupted run held as doubles - an order parameter exactly on an interface changes side, the reloaded path gets another weight, and the restarted run writes other data and restart files than the run in one go", construct=f"{q}: reduced precision {txt}")
                    else:
                        ctx.ok(rid, c, f"{q}: `{short(c, 40)}` keeps double (or wider) precision", nontrivial=False)
            # np.array(...) of parsed text without dtype is float64
    loaders = [(m, q, f) for rel in (FORMATTER_REL,) for m, q, f in tree.all_funcs([rel]) if f.name == "load"]
    if len(loaders) < 2:
        raise AnalysisError(f"R-6.18: only {len(loaders)} load() methods found in formatter.py")
    for m, q, f in loaders:
        ctx.ok(rid, f, f"{q} examined ({sum(1 for c in walk_local(f) if isinstance(c, ast.Call) and last_name(c) in ('array', 'asarray'))} array constructions)")


def run(ctx):
    ctx.rule("R-6.19", "stopping after any step leaves a restart file that loads: restart.toml is complete when it takes the final name (dump, close, then the replace; shared with C08 R-8.2)", floor=1)
    from . import c08 as _c08p
    from .shared import RuleProxy as _RP6p
    ctx.attempt(_c08p.r82, _RP6p(ctx, "R-6.19", " (a kill between the rename and the close leaves an empty restart.toml and no older copy: the run cannot be continued, let alone reproduce the uninterrupted one)"))
    ctx.rule("R-6.6", "in-flight jobs are persisted and re-issued in one ensemble-index unit (offset symmetry of current.locked; shared with C08 R-8.7)", floor=4)
    ctx.rule("R-6.1", "restart.toml writer/reader agreement: keys, roles, key representation", floor=12)
    ctx.rule("R-6.2", "restore provenance of the scheduler stream (cross-reference to C07)", floor=1)
    ctx.rule("R-6.3", "no nondeterministic source reaches restart.toml or the data file (taint analysis)", floor=10)
    ctx.rule("R-6.4", "per-run state is per instance", floor=3)
    ctx.rule("R-6.11", "the in-flight record that is persisted and re-issued uses one representation of path numbers at all its filling sites and consumers (shared with C03 R-3.8)", floor=3)
    ctx.rule("R-6.10", "what load_path reads back has the roles it was written with (columns of order/energy/traj files, shared with C14 R-14.2)", floor=3)
    ctx.rule("R-6.9", "a restart does not rewrite persisted settings: stores outside [current] on the restart path of setup_config only fill in missing defaults", floor=4)
    ctx.rule("R-6.8", "the weight function is called with the same configuration keys when a path is accepted (run_md) and when it is loaded at a (re)start (load_paths)", floor=4)
    ctx.rule("R-6.7", "every configuration key is accessed under one section path across the package (what the run used is what the restart uses)", floor=20)
    ctx.rule("R-6.5", "the restart file is written from the final state of the step: nothing it serialises is modified after write_toml in treat_output", floor=1)
    ctx.attempt(r61, ctx)
    ctx.attempt(r62, ctx)
    ctx.attempt(r63, ctx)
    ctx.attempt(r64, ctx)
    ctx.attempt(r66, ctx)
    ctx.rule("R-6.12", "tables written to restart.toml / the data file from a per-run dictionary are emitted in sorted order (insertion order differs between a run and its restart)", floor=1)
    ctx.attempt(r612, ctx)
    ctx.rule("R-6.14", "every completed step is committed: each normal path through treat_output writes restart.toml", floor=1)
    from .shared import commit_every_step
    ctx.attempt(commit_every_step, ctx, "R-6.14")
    ctx.rule("R-6.13", "nothing in the move / scheduler code branches on the tag of paths reloaded at a restart (the continued run treats a path like the uninterrupted run does)", floor=1)
    from .shared import restart_tag_not_tested
    ctx.attempt(restart_tag_not_tested, ctx, "R-6.13", " (restart equivalence)")
    from .shared import commit_is_final
    ctx.attempt(commit_is_final, ctx, "R-6.5")
    from . import c14
    from .shared import RuleProxy
    from . import c03 as _c03
    _cls = ctx.tree.cls(REPEX, "REPEX_state")
    _methods = {s.name: s for s in _cls.body if isinstance(s, FUNC)}
    ctx.attempt(_c03.r38, RuleProxy(ctx, "R-6.11", " (jobs re-issued after a restart are never cleared from current.locked, so the next restart re-issues stale jobs)"), _methods)
    ctx.attempt(c14.r142, RuleProxy(ctx, "R-6.10", " (a path read back at a restart differs from the path the interrupted run held in memory)"))
    ctx.rule("R-6.15", "every in-process random draw of a move comes from the job's streams that restart.toml persists (shared with C07 R-7.4): a draw from the process-global generator is not reproduced by a restart", floor=10)
    from . import c07 as _c07
    ctx.attempt(_c07.r74, RuleProxy(ctx, "R-6.15", " (restart equivalence: the restart file persists the scheduler stream only; a draw from any other generator differs between the run and its restart)"))
    ctx.rule("R-6.18", "paths read back from order.txt / energy.txt / traj.txt keep double precision (no float32 / float16 in the readers)", floor=2)
    ctx.attempt(r618, ctx)
    ctx.rule("R-6.17", "a restart hands the re-issued and all later jobs the streams of the uninterrupted run: the restored spawn counter does not count jobs that pick_lock spawns again (shared with C07 R-7.9)", floor=1)
    ctx.attempt(_c07.spawn_counter_not_double_counted, ctx, "R-6.17", " (restart equivalence: infretis_data.txt and restart.toml of the restarted run differ from the uninterrupted run)")
    ctx.rule("R-6.16", "the live paths in memory stay what is on disk: moves hand frames of their input paths to engines only as fresh copies and never extend an input path in place (shared with C09 R-9.3) - otherwise a rejected move leaves the in-memory path pointing at scratch files while a restart reloads the intact path", floor=13)
    from . import c09 as _c09
    ctx.attempt(_c09.r93, RuleProxy(ctx, "R-6.16", " (restart equivalence: the run in one go continues from the modified in-memory path, the restarted run from the intact path on disk)"), _c09.move_functions(ctx.tree))
    from .shared import config_section_agreement, callsite_config_agreement, restart_preserves_settings
    ctx.attempt(restart_preserves_settings, ctx, "R-6.9", " (restart equivalence)")
    ctx.attempt(callsite_config_agreement, ctx, "R-6.8", "calc_cv_vector", ["interfaces", "moves", "lambda_minus_one", "cap"], " (restart equivalence: a path loaded from disk is weighted like the same path when it was accepted)")
    ctx.attempt(config_section_agreement, ctx, "R-6.7", " - a path loaded at a restart is then weighted / treated with another setting than the same path during the run")


VARIANTS = [
    B("c06-restart-file-renamed-while-open", REPEX, '        os.replace("./restart.toml.tmp", "./restart.toml")\n', '            os.replace("./restart.toml.tmp", "./restart.toml")\n', "R-6.19", control=True, why="seeded C06_p"),
    B("c06-order-file-read-in-single-precision", FORMATTER_REL, '                "data": np.array(blocks["data"]),', '                "data": np.array(blocks["data"], dtype=np.float32),', "R-6.18", control=True, why="seeded C06_m"),
    B("c06-spawn-counter-counts-reissued-jobs", REPEX, "            n_children_spawned=self.cstep,", "            n_children_spawned=self.cstep + len(self.config[\"current\"].get(\"locked\", [])),", "R-6.17", control=True, why="seeded C06_l"),
    B("c06-zero-swap-hands-live-frame-to-engine", TIS, "path_old0.phasepoints[-1].copy()", "path_old0.phasepoints[-1]", "R-6.16", control=True, why="seeded C06_j"),
    B("c06-ase-integrator-loses-job-stream", ASE_REL, "dyn = self.Integrator(atoms, **integrator_settings)", "dyn = self.Integrator(atoms, **self.integrator_settings)", "R-6.15", control=True, why="seeded C06_i"),
    B("c06-commit-only-when-printing", REPEX, "            self.print_shooted(md_items, pn_news)\n        # save for possible restart\n        self.write_toml()", "            self.print_shooted(md_items, pn_news)\n            # save for possible restart\n            self.write_toml()", "R-6.14", control=True, why="seeded C06_g"),
    B("c06-restarted-paths-treated-differently", TIS, '    if path.get_move() == "ld" or ens_set["tis_set"].get(', '    if path.get_move() in ("ld", "re") or ens_set["tis_set"].get(', "R-6.13", control=True, why="seeded C09_g"),
    B("c06-frac-table-in-insertion-order", REPEX, "        for key in sorted(self.traj_data.keys()):\n            fracs = [str(i) for i in self.traj_data[key][\"frac\"]]", "        for key, data in self.traj_data.items():\n            fracs = [str(i) for i in data[\"frac\"]]", "R-6.12", control=True, why="seeded C06_f"),
    K("c06-keep-frac-table-sorted-items", REPEX, "        for key in sorted(self.traj_data.keys()):\n            fracs = [str(i) for i in self.traj_data[key][\"frac\"]]", "        for key, data in sorted(self.traj_data.items()):\n            fracs = [str(i) for i in data[\"frac\"]]"),
    B("c06-reissue-recorded-as-int", REPEX, "        self.locked.append((enss, trajs0))\n", "        self.locked.append((enss, [i.path_number for i in trajs]))\n", "R-6.11", why="seeded C06_e (= C17_a)"),
    B("c06-load-energies-swapped", PATH, '                energy["data"]["ekin"], energy["data"]["vpot"]', '                energy["data"]["vpot"], energy["data"]["ekin"]', "R-6.10", control=True, why="seeded C06_d"),
    B("c06-restart-resets-data-file", SETUP, '        curr["restarted_from"] = config["current"]["cstep"]\n', '        curr["restarted_from"] = config["current"]["cstep"]\n        config["output"]["data_file"] = os.path.join(config["output"]["data_dir"], "infretis_data.txt")\n', "R-6.9", control=True, why="seeded C04_d"),
    B("c06-restart-reseeds", SETUP, '    if "seed" not in config["simulation"].keys():\n        config["simulation"]["seed"] = 0', '    config["simulation"]["seed"] = 0', "R-6.9"),
    B("c06-load-paths-without-cap", REPEX, "                cap=self.cap,\n            )\n            self.add_traj(\n                ens=i,", "            )\n            self.add_traj(\n                ens=i,", "R-6.8", control=True),
    B("c06-run-md-wrong-moves", TIS, '                md_items["mc_moves"],\n                picked[ens_num]["ens"]["tis_set"]["lambda_minus_one"],', '                md_items["interfaces"],\n                picked[ens_num]["ens"]["tis_set"]["lambda_minus_one"],', "R-6.8"),
    K("c06-keep-load-paths-direct-keys", REPEX, "                cap=self.cap,\n            )\n            self.add_traj(\n                ens=i,", "                cap=self.config[\"simulation\"][\"tis_set\"].get(\"interface_cap\"),\n            )\n            self.add_traj(\n                ens=i,"),
    B("c06-cap-from-wrong-section", REPEX, "                cap=self.cap,\n            )\n            self.add_traj(\n                ens=i,", "                cap=self.config[\"simulation\"].get(\"interface_cap\", None),\n            )\n            self.add_traj(\n                ens=i,", "R-6.7", control=True, why="seeded C06_c"),
    K("c06-keep-cap-from-right-section-alias", REPEX, "                cap=self.cap,\n            )\n            self.add_traj(\n                ens=i,", "                cap=self.config[\"simulation\"][\"tis_set\"].get(\"interface_cap\", None),\n            )\n            self.add_traj(\n                ens=i,"),
    B("c06-rng-state-not-saved", REPEX, '        self.config["current"]["rng_state"] = self.rgen.bit_generator.state\n', "", "R-6.1", control=True),
    B("c06-rng-state-wrong-object", REPEX, '        self.config["current"]["rng_state"] = self.rgen.bit_generator.state\n', '        self.config["current"]["rng_state"] = default_rng(seed=self.cstep).bit_generator.state\n', "R-6.1"),
    B("c06-frac-read-int-key", REPEX, "                str(pnum), np.zeros(size + 1)\n            )\n            self.traj_data[pnum] = {\n                \"ens_save_idx\": i + 1,", "                pnum, np.zeros(size + 1)\n            )\n            self.traj_data[pnum] = {\n                \"ens_save_idx\": i + 1,", "R-6.1"),
    B("c06-active-sorted", REPEX, '        self.config["current"]["active"] = self.live_paths()', '        self.config["current"]["active"] = sorted(self.live_paths())', "R-6.1"),
    B("c06-frac-only-live", REPEX, "        for key in sorted(self.traj_data.keys()):\n            fracs", "        for key in sorted(self.traj_data.keys()):\n            if key not in self.live_paths():\n                continue\n            fracs", "R-6.1"),
    B("c06-traj-num-never-persisted", REPEX, '        self.config["current"]["traj_num"] = traj_num\n', "", "R-6.1",
      also=[(SETUP, '            "traj_num": size,\n', "")]),
    B("c06-timestamp-in-restart", REPEX, '        self.config["current"]["active"] = self.live_paths()', '        self.config["current"]["active"] = self.live_paths()\n        self.config["current"]["written_at"] = time.time()', "R-6.3", control=True),
    B("c06-walltime-in-restart-via-md-items", REPEX, '        self.cworker = md_items["pin"]\n', '        self.cworker = md_items["pin"]\n        self.config["current"]["last_md_time"] = md_items["md_end"] - md_items["md_start"]\n', "R-6.3"),
    B("c06-pid-in-data-file", REPEX, '            string += f"\\t{pn:3.0f}\\t"\n', '            string += f"\\t{pn:3.0f}\\t{os.getpid()}"\n', "R-6.3"),
    B("c06-start-time-in-config", REPEX, '        self.config["current"]["active"] = self.live_paths()', '        self.config["current"]["active"] = self.live_paths()\n        self.config["output"]["started"] = self.start_time', "R-6.3"),
    B("c06-traj-data-shared", REPEX, "        # per-run path data: not shared with other REPEX_state instances\n        self.traj_data = {}\n", "", "R-6.4", control=True, why="pre-fix D12"),
    B("c06-ensembles-conditionally-rebound", SETUP, "    # setup ensembles\n    state.initiate_ensembles()\n", "    # setup ensembles\n    if not state.ensembles:\n        state.initiate_ensembles()\n", "R-6.4"),
    B("c06-commit-before-sort", REPEX, "        self.sort_trajstate()\n        self.config[\"current\"][\"traj_num\"] = traj_num\n", "        self.config[\"current\"][\"traj_num\"] = traj_num\n        self.write_toml()\n        self.sort_trajstate()\n", "R-6.5", control=True, why="seeded C06_a"),
    B("c06-reissue-recorded-with-offset", REPEX, "        self.locked.append((enss, trajs0))\n", "        self.locked.append((enss0, trajs0))\n", "R-6.6", why="seeded C06_b (= C08_b)"),
    B("c06-locked-written-without-offset", REPEX, "([int(tup0 + self._offset) for tup0 in tup[0]], tup[1])", "([int(tup0) for tup0 in tup[0]], tup[1])", "R-6.6", control=True),
    K("c06-keep-frac-key-local", REPEX, "        for key in sorted(self.traj_data.keys()):\n            fracs = [str(i) for i in self.traj_data[key][\"frac\"]]\n            self.config[\"current\"][\"frac\"][str(key)] = fracs", "        for key in sorted(self.traj_data.keys()):\n            fracs = [str(i) for i in self.traj_data[key][\"frac\"]]\n            current = self.config[\"current\"]\n            current[\"frac\"][str(key)] = fracs"),
    K("c06-keep-step-count-in-log", REPEX, '        self.cworker = md_items["pin"]\n', '        self.cworker = md_items["pin"]\n        logger.debug("step took %s", md_items["md_end"] - md_items["md_start"])\n'),
    K("c06-keep-traj-data-dict-call", REPEX, "        self.traj_data = {}\n", "        self.traj_data = dict()\n"),
]
