"""C16 - velocity regeneration changes only velocities.

Write-what-you-read provenance in every modify_velocities implementation,
fresh output file, momentum reset position, kinetic energy computed from the
velocities that are written.
"""

from __future__ import annotations

import ast

from ..flow import flow_of, path_of
from ..loader import FUNC, AnalysisError, dotted, last_name, loc, short, walk_local, enclosing_stmt
from ..util import AMS, ASE, CP2K, ENGBASE, GROMACS, LAMMPS, TIS, TURTLE, kwarg
from ..variants import B, K

EXPLANATION = (
    "For every in-process modify_velocities (CP2K, LAMMPS, TurtleMD, GROMACS "
    "infretis_genvel branch, ASE): (R-16.1) the positions, box and atom "
    "identities handed to the writer are exactly the values returned by the "
    "reader of the dumped frame in the same function - no store, in-place "
    "operator or mutating call in between - and only the velocity argument is "
    "redefined (from draw_maxwellian_velocities); (R-16.2) the file written is "
    "a fresh name under exe_dir, never the frame's own file, and system.config "
    "is re-pointed to it; the caller passes a copy of the frame; (R-16.3) "
    "zero_momentum is consulted and the reset lies between draw and write; "
    "(R-16.4) the reported kinetic energy is computed from the final written "
    "velocities; (R-16.5) draws come from the job stream (shared with C07)."
)
NOT_DECIDED = (
    "that each component has variance k_B*T/m in the engine's own units (unit "
    "constants such as kb, the LAMMPS factor 48.888..., CP2K mass conversion); "
    "Gaussianity (NumPy)"
)
ASSUMPTIONS = [
    "reset_momentum modifies its first argument in place and returns it; kinetic_energy does not modify its arguments (read in cp2k.py)",
    "ASE MaxwellBoltzmannDistribution / Stationary modify momenta only",
]

WRITERS = {
    # name -> roles by positional index
    "write_xyz_trajectory": {"file": 0, "pos": 1, "vel": 2, "ids": 3, "box": 4},
    "write_lammpstrj": {"file": 0, "ids": 1, "pos": 2, "vel": 3, "box": 4},
    "write_gromos96_file": {"file": 0, "ids": 1, "pos": 2, "vel": 3, "box": 4},
}
READERS = {"_read_configuration", "read_lammpstrj", "read_gromos96_file"}
INPLACE = {"reset_momentum": [0], "shift_boxbounds": [0, 1]}
ASE_POS_MUTATORS = {"set_positions", "set_cell", "translate", "rattle", "set_scaled_positions", "wrap", "center", "rotate", "set_pbc", "set_atomic_numbers", "set_chemical_symbols", "set_masses", "pop", "append", "extend"}


def implementations(tree):
    out = []
    for m, name, c in tree.subclasses("EngineBase"):
        for st in c.body:
            if isinstance(st, FUNC) and st.name == "modify_velocities":
                out.append((m, name, st))
    return out


def _mutations_between(fl, cfg, name, a, b, allow_defs=()):
    """In-place changes of `name` on a path a ->* b."""
    out = []
    f = fl.func
    ra = cfg.reachable(a)
    for s in walk_local(f):
        hit = None
        if isinstance(s, ast.AugAssign) and (path_of(s.target) == name or (isinstance(s.target, ast.Subscript) and path_of(s.target.value) == name)):
            hit = s
        if isinstance(s, ast.Assign) and any(isinstance(t, ast.Subscript) and path_of(t.value) == name for t in s.targets):
            hit = s
        if isinstance(s, ast.Call):
            ln = last_name(s)
            if ln in INPLACE:
                for i in INPLACE[ln]:
                    if i < len(s.args) and path_of(s.args[i]) == name:
                        hit = s
            if isinstance(s.func, ast.Attribute) and path_of(s.func.value) == name and s.func.attr in ("sort", "fill", "resize", "put", "clip", "round"):
                hit = s
            for k in s.keywords:
                if k.arg == "out" and path_of(k.value) == name:
                    hit = s
        if hit is not None and cfg.nodes_of(hit):
            n = cfg.node_of(hit)
            if n.id in ra and cfg.reaches(n, b):
                out.append(hit)
    return out


def array_engine(ctx, m, cname, f, writer_calls):
    fl = flow_of(f)
    cfg = fl.cfg
    for W in writer_calls:
        roles = WRITERS[last_name(W)]
        wn = cfg.node_of(W)

        def arg(role):
            i = roles[role]
            if i < len(W.args):
                return W.args[i]
            kw = {"pos": ("xyz", "pos"), "vel": ("vel",), "box": ("box",), "ids": ("names", "id_type", "raw"), "file": ("filename", "outfile")}[role]
            for k in W.keywords:
                if k.arg in kw:
                    return k.value
            return None

        # ---- R-16.1
        for role in ("pos", "ids", "box"):
            a = arg(role)
            if a is None:
                if role == "box" and last_name(W) == "write_gromos96_file":
                    # the box block is part of the raw text the reader returned (txt["BOX"])
                    continue
                ctx.bad("R-16.1", W, f"{cname}.modify_velocities writes no {role}: the regenerated frame loses it")
                continue
            p = path_of(a)
            bad = None
            if p is None:
                bad = f"the {role} argument is a computed expression ({short(a, 40)}), not the value read from the dumped frame"
            else:
                rds = fl.rd(p, wn)
                read_defs = [d for d, sfx in rds if d.kind == "unpack" and isinstance(d.value, ast.Call) and last_name(d.value) in READERS]
                other = [d for d, sfx in rds if d not in read_defs]
                if not read_defs:
                    bad = f"the {role} written does not come from the reader of the dumped frame"
                for d in other:
                    ok_none = False
                    if role == "box":
                        # definition from None: `if box is None: box, _ = read_cp2k_box(...)`
                        g = [(ast.unparse(e), t) for e, t, _ in cfg.guards(d.at)]
                        if any(x == f"{p} is None" and t for x, t in g):
                            ok_none = True
                    if role == "ids" and d.kind == "item" and "VELOCITY" in ast.unparse(d.stmt.targets[0]):
                        ok_none = True  # txt["VELOCITY"] header block, not identities
                    if not ok_none:
                        bad = f"the {role} read from the frame is redefined before it is written ({short(d.stmt, 60) if d.stmt is not None else d.kind})"
                if bad is None and read_defs:
                    muts = []
                    for d in read_defs:
                        muts += _mutations_between(fl, cfg, p, d.at, wn)
                    muts = [x for x in muts if not (role == "ids" and "VELOCITY" in ast.unparse(x))]
                    if muts:
                        bad = f"the {role} read from the frame is modified in place before it is written ({short(muts[0], 60)})"
            if bad:
                ctx.bad("R-16.1", W, f"{cname}.modify_velocities: {bad}: velocity regeneration must change velocities only",
                        construct=f"{last_name(W)}(..., {role}={short(a, 40) if a is not None else '-'})")
            else:
                ctx.ok("R-16.1", W, f"{cname}: {role} written is exactly what the reader of the dumped frame returned")
        # velocity must be the regenerated one
        v = arg("vel")
        vp = path_of(v) if v is not None else None
        drawn = False
        if vp:
            deps = fl.deps(v, wn)
            drawn = any(k == "call" and key.endswith("draw_maxwellian_velocities") for k, key in deps)
        if drawn:
            ctx.ok("R-16.1", W, f"{cname}: the velocity written derives from draw_maxwellian_velocities")
        else:
            ctx.bad("R-16.1", W, f"{cname}.modify_velocities writes velocities that do not derive from draw_maxwellian_velocities (the old velocities are kept)")
        # ---- R-16.2
        fa = arg("file")
        fdeps = fl.deps(fa, wn) if fa is not None else set()
        uses_exe = any(k in ("param", "free") and key == "self.exe_dir" for k, key in fdeps)
        uses_src = any(k in ("param", "free") and ("system.config" in key) for k, key in fdeps) or any(k == "call" and key.endswith("dump_frame") for k, key in fdeps)
        if uses_exe and not uses_src:
            ctx.ok("R-16.2", W, f"{cname}: regenerated frame is written to a fresh file under exe_dir")
        else:
            ctx.bad("R-16.2", W, f"{cname}.modify_velocities writes into the file of the frame it was taken from (or not under exe_dir): the source frame is altered",
                    construct=f"{last_name(W)}({short(fa, 50) if fa is not None else '-'}, ...)")
        cfg_stores = [d for d in fl.defs if d.path == "system.config" and d.kind == "assign"]
        ok_cfg = False
        for d in cfg_stores:
            if isinstance(d.value, ast.Tuple) and d.value.elts and fa is not None and ast.unparse(d.value.elts[0]) == ast.unparse(fa):
                ok_cfg = True
        if ok_cfg:
            ctx.ok("R-16.2", cfg_stores[0].stmt, f"{cname}: system.config re-pointed to the written file")
        else:
            ctx.bad("R-16.2", W, f"{cname}.modify_velocities does not re-point system.config to the file it wrote: the shooting point still references the old velocities")
        # ---- R-16.3
        draws = [c for c in walk_local(f) if isinstance(c, ast.Call) and last_name(c) == "draw_maxwellian_velocities"]
        resets = [c for c in walk_local(f) if isinstance(c, ast.Call) and last_name(c) == "reset_momentum"]
        good = []
        for r in resets:
            rn = cfg.node_of(r)
            g = [e for e, t, _ in cfg.guards(rn) if t and "zero_momentum" in ast.unparse(e) and "vel_settings" in ast.unparse(e)]
            st = enclosing_stmt(r)
            assigned = isinstance(st, ast.Assign) and path_of(st.targets[0]) == vp or (r.args and path_of(r.args[0]) == vp)
            if g and any(cfg.reaches(cfg.node_of(d), rn) for d in draws) and cfg.reaches(rn, wn) and assigned:
                good.append(r)
        if good:
            ctx.ok("R-16.3", good[0], f"{cname}: momentum reset under vel_settings['zero_momentum'], between draw and write, on the written velocities")
        else:
            ctx.bad("R-16.3", W, f"{cname}.modify_velocities does not reset the momentum of the written velocities when zero_momentum is requested (reset missing, unguarded, after the write, or applied to another array)")
        # ---- R-16.4
        r164(ctx, cname, f, fl, cfg, vp, wn, W)


def r164(ctx, cname, f, fl, cfg, vp, wn, W):
    rets = [r for r in walk_local(f) if isinstance(r, ast.Return) and isinstance(r.value, ast.Tuple) and len(r.value.elts) == 2]
    if not rets:
        ctx.bad("R-16.4", f, f"{cname}.modify_velocities does not return (dek, kin_new)")
        return
    for r in rets:
        kn = r.value.elts[1]
        kp = path_of(kn)
        rn = cfg.node_of(r)
        ok = True
        why = ""
        for d, _ in fl.rd(kp, rn) if kp else []:
            if d.stmt is None or not cfg.reaches(d.at, rn):
                continue
            v = d.value
            calls = [c for c in ast.walk(v) if isinstance(c, ast.Call) and last_name(c) == "kinetic_energy"] if isinstance(v, ast.AST) else []
            if not calls:
                # external GROMACS branch: energy from the program that generated the velocities
                if "energy" in ast.unparse(v):
                    continue
                ok, why = False, f"kin_new is not computed by kinetic_energy(...) ({short(v, 40)})"
                continue
            a0 = calls[0].args[0]
            if path_of(a0) != vp:
                ok, why = False, f"kin_new is computed from {short(a0, 30)}, not from the velocities that are written ({vp})"
                continue
            v_at_k = {x.id for x, _ in fl.rd(vp, d.at)}
            v_at_w = {x.id for x, _ in fl.rd(vp, wn)}
            if v_at_k != v_at_w:
                ok, why = False, "kin_new is computed from an earlier version of the velocities than the one written (a later rescaling / momentum reset is not included)"
        # system.ekin
        if not any(d.path == "system.ekin" and path_of(d.value) == kp for d in fl.defs if d.kind == "assign"):
            ok, why = False, "system.ekin is not set to the reported kinetic energy"
        if ok:
            ctx.ok("R-16.4", r, f"{cname}: kin_new computed from the same version of the velocities that is written; system.ekin = kin_new")
        else:
            ctx.bad("R-16.4", r, f"{cname}.modify_velocities: {why}", construct=f"return {short(r.value, 40)}")


def ase_engine(ctx, m, cname, f):
    fl = flow_of(f)
    cfg = fl.cfg
    writes = [c for c in walk_local(f) if isinstance(c, ast.Call) and isinstance(c.func, ast.Attribute) and c.func.attr == "write"]
    mb = [c for c in walk_local(f) if isinstance(c, ast.Call) and last_name(c) in ("MaxwellBoltzmannDistribution", "thermalize_momenta")]
    if not writes or not mb:
        raise AnalysisError("C16: ASE modify_velocities: writer or MaxwellBoltzmannDistribution call not found")
    W = writes[0]
    wn = cfg.node_of(W)
    obj = path_of(W.func.value)
    # R-16.1: the atoms object read from the dumped frame, positions untouched
    srcs = fl.sources(W.func.value, wn)
    from_read = all(k == "expr" and isinstance(n, ast.Call) and last_name(n) == "read" or (k.startswith("sub:") or k == "expr" and isinstance(n, ast.Subscript)) for k, n, _, _ in srcs)
    muts = [c for c in walk_local(f) if isinstance(c, ast.Call) and isinstance(c.func, ast.Attribute) and path_of(c.func.value) == obj and c.func.attr in ASE_POS_MUTATORS]
    muts += [s for s in walk_local(f) if isinstance(s, (ast.Assign, ast.AugAssign)) and any(isinstance(t, (ast.Attribute, ast.Subscript)) and ast.unparse(t).startswith(obj + ".") and any(x in ast.unparse(t) for x in ("positions", "cell", "numbers", "pbc")) for t in (s.targets if isinstance(s, ast.Assign) else [s.target]))]
    if from_read and not muts:
        ctx.ok("R-16.1", W, f"{cname}: the Atoms object read from the dumped frame is written back; no position/cell/identity mutator is called on it")
    else:
        ctx.bad("R-16.1", muts[0] if muts else W, f"{cname}.modify_velocities changes positions, cell or identities of the frame (or writes an object not read from it)")
    if any(cfg.reaches(cfg.node_of(c), wn) for c in mb):
        ctx.ok("R-16.1", mb[0], f"{cname}: velocities regenerated by {last_name(mb[0])} before the write")
    else:
        ctx.bad("R-16.1", W, f"{cname}.modify_velocities writes without regenerating velocities")
    # R-16.2
    fa = W.args[0] if W.args else None
    fdeps = fl.deps(fa, wn) if fa is not None else set()
    if any(k in ("param", "free") and key == "self.exe_dir" for k, key in fdeps) and not any(k == "call" and key.endswith("dump_frame") for k, key in fdeps):
        ctx.ok("R-16.2", W, f"{cname}: regenerated frame is written to a fresh file under exe_dir")
    else:
        ctx.bad("R-16.2", W, f"{cname}.modify_velocities writes into the file of the frame it was taken from")
    if any(d.path == "system.config" and isinstance(d.value, ast.Tuple) and fa is not None and ast.unparse(d.value.elts[0]) == ast.unparse(fa) for d in fl.defs):
        ctx.ok("R-16.2", W, f"{cname}: system.config re-pointed to the written file")
    else:
        ctx.bad("R-16.2", W, f"{cname}.modify_velocities does not re-point system.config to the file it wrote")
    # R-16.3
    st = [c for c in walk_local(f) if isinstance(c, ast.Call) and last_name(c) in ("Stationary", "ZeroRotation")]
    stat = [c for c in st if last_name(c) == "Stationary"]
    good = [c for c in stat if any(t and "zero_momentum" in ast.unparse(e) for e, t, _ in cfg.guards(cfg.node_of(c))) and cfg.reaches(cfg.node_of(c), wn) and any(cfg.reaches(cfg.node_of(x), cfg.node_of(c)) for x in mb)]
    if good:
        ctx.ok("R-16.3", good[0], f"{cname}: Stationary under vel_settings['zero_momentum'], between draw and write")
    else:
        ctx.bad("R-16.3", W, f"{cname}.modify_velocities does not remove the total momentum when zero_momentum is requested (missing, unguarded or after the write)")
    # R-16.4: kin_new after the last momentum mutation
    rets = [r for r in walk_local(f) if isinstance(r, ast.Return) and isinstance(r.value, ast.Tuple) and len(r.value.elts) == 2]
    for r in rets:
        kp = path_of(r.value.elts[1])
        rn = cfg.node_of(r)
        ok, why = True, ""
        for d, _ in fl.rd(kp, rn) if kp else []:
            if not (isinstance(d.value, ast.Call) and isinstance(d.value.func, ast.Attribute) and d.value.func.attr == "get_kinetic_energy" and path_of(d.value.func.value) == obj):
                ok, why = False, "kin_new is not the kinetic energy of the written Atoms object"
                continue
            later = [c for c in mb + st if cfg.reaches(d.at, cfg.node_of(c)) and cfg.reaches(cfg.node_of(c), wn)]
            if later:
                ok, why = False, f"kin_new is computed before {last_name(later[0])} changes the momenta that are written: (dek, kin_new) describe velocities that were never written"
        if not any(d.path == "system.ekin" and path_of(d.value) == kp for d in fl.defs if d.kind == "assign"):
            ok, why = False, "system.ekin is not set to the reported kinetic energy"
        if ok:
            ctx.ok("R-16.4", r, f"{cname}: kin_new taken after the last momentum change and before/at the write")
        else:
            ctx.bad("R-16.4", r, f"{cname}.modify_velocities: {why}", construct=f"return {short(r.value, 40)}")


def external_gromacs(ctx, m, cname, f):
    """The gmx-driven branch: must refuse zero_momentum False, and take energies from that run."""
    fl = flow_of(f)
    cfg = fl.cfg
    raises = [r for r in walk_local(f) if isinstance(r, ast.Raise)]
    ok = False
    for r in raises:
        g = [ast.unparse(e) for e, t, _ in cfg.guards(cfg.node_of(r)) if t]
        if any("zero_momentum" in x and "is False" in x for x in g):
            ok = True
    if ok:
        ctx.ok("R-16.3", raises[0], f"{cname} (external gmx velocity generation) refuses zero_momentum = False with a ValueError")
    else:
        ctx.bad("R-16.3", f, f"{cname}: the external velocity generation silently ignores zero_momentum = False")


def r16_caller(ctx):
    f = ctx.tree.func(TIS, "prepare_shooting_point")
    fl = flow_of(f)
    for c in [c for c in walk_local(f) if isinstance(c, ast.Call) and last_name(c) == "modify_velocities"]:
        srcs = fl.sources(c.args[0], fl.cfg.node_of(c))
        if all(k == "expr" and isinstance(n, ast.Call) and isinstance(n.func, ast.Attribute) and n.func.attr == "copy" for k, n, _, _ in srcs):
            ctx.ok("R-16.2", c, "prepare_shooting_point hands a copy of the frame to modify_velocities: the path's own frame keeps its configuration reference")
        else:
            ctx.bad("R-16.2", c, "prepare_shooting_point hands a frame of the old path itself to modify_velocities (which re-points its config)")


def run(ctx):
    ctx.rule("R-16.1", "positions, box and identities written are exactly those read from the dumped frame; only velocities are regenerated", floor=14)
    ctx.rule("R-16.2", "the regenerated frame goes to a fresh file under exe_dir; system.config re-pointed; caller passes a copy", floor=10)
    ctx.rule("R-16.3", "momentum reset under zero_momentum between draw and write (external gmx refuses False)", floor=5)
    ctx.rule("R-16.4", "reported kinetic energy computed from the velocities that are written; system.ekin set to it", floor=5)
    ctx.rule("R-16.7", "the frame index of the configuration that is dumped before velocity regeneration is tested with `is None`, never by truthiness (index 0 is a frame)", floor=5)
    ctx.rule("R-16.6", "positional role agreement in velocity regeneration: (dek, kin_new), (vel, sigma_v), (xyz, vel, box, names) and writer arguments sit where the callee returns / expects them", floor=15)
    impls = implementations(ctx.tree)
    armed = 0
    for m, cname, f in impls:
        if m.rel == AMS:
            ctx.note(f"{cname} parsed; not armed (draws happen in the external AMS worker)")
            continue
        wcalls = [c for c in walk_local(f) if isinstance(c, ast.Call) and last_name(c) in WRITERS]
        if m.rel == ASE:
            ctx.attempt(ase_engine, ctx, m, cname, f)
            armed += 1
        elif wcalls:
            ctx.attempt(array_engine, ctx, m, cname, f, wcalls)
            armed += 1
            if m.rel == GROMACS:
                ctx.attempt(external_gromacs, ctx, m, cname, f)
        else:
            ctx.bad("R-16.1", f, f"{cname}.modify_velocities has no recognised writer call")
    if armed < 5:
        raise AnalysisError(f"C16: only {armed} modify_velocities implementations found (expected 5)")
    ctx.attempt(r16_caller, ctx)
    from .shared import role_agreement, frame_index_truthiness
    ctx.attempt(frame_index_truthiness, ctx, "R-16.7", [GROMACS, CP2K, LAMMPS, TURTLE, ASE, ENGBASE], " (the whole multi-frame file is dumped instead of frame 0: velocities are regenerated for another frame)")
    P16 = ("modify_velocities", "draw_maxwellian_velocities", "_prepare_shooting_point", "kinetic_energy", "reset_momentum", "prepare_shooting_point")
    ctx.attempt(role_agreement, ctx, "R-16.6", [GROMACS, CP2K, LAMMPS, TURTLE, ASE, ENGBASE, TIS], lambda q, f: f.name in P16, " (velocity regeneration would write / report the wrong quantity)")
    ctx.note("R-16.5 (draws use the job stream) is decided under C07 R-7.4 for the same call sites")


VARIANTS = [
    B("c16-dump-config-idx-truthiness", ENGBASE, "        if idx is None:\n            if pos_file != out_file:\n                self._copyfile(pos_file, out_file)\n        else:\n            logger.debug(\"Config: %s\", (config,))\n            self._extract_frame(pos_file, idx, out_file)\n", "        if idx:\n            logger.debug(\"Config: %s\", (config,))\n            self._extract_frame(pos_file, idx, out_file)\n        elif pos_file != out_file:\n            self._copyfile(pos_file, out_file)\n", "R-16.7", control=True, why="seeded C16_c"),
    K("c16-keep-dump-config-reordered", ENGBASE, "        if idx is None:\n            if pos_file != out_file:\n                self._copyfile(pos_file, out_file)\n        else:\n            logger.debug(\"Config: %s\", (config,))\n            self._extract_frame(pos_file, idx, out_file)\n", "        if idx is not None:\n            logger.debug(\"Config: %s\", (config,))\n            self._extract_frame(pos_file, idx, out_file)\n        elif pos_file != out_file:\n            self._copyfile(pos_file, out_file)\n"),
    B("c16-lammps-writer-args-swapped", LAMMPS, "        write_lammpstrj(conf_out, id_type, xyz, vel, box)", "        write_lammpstrj(conf_out, id_type, vel, xyz, box)", "R-16.6", control=True),
    B("c16-tis-dek-kin-swapped", TIS, "    dek, _ = engine.modify_velocities(shpt_copy, ens_set[\"tis_set\"])", "    _, dek = engine.modify_velocities(shpt_copy, ens_set[\"tis_set\"])", "R-16.6"),
    B("c16-cp2k-kinetic-args-swapped", CP2K, "        kin_new = kinetic_energy(vel, mass)[0]", "        kin_new = kinetic_energy(mass, vel)[0]", "R-16.6"),
    K("c16-keep-writer-kwargs", LAMMPS, "        write_lammpstrj(conf_out, id_type, xyz, vel, box)", "        write_lammpstrj(conf_out, id_type, xyz, vel=vel, box=box)"),
    B("c16-cp2k-positions-scaled", CP2K, "        write_xyz_trajectory(conf_out, xyz, vel, atoms, box, append=False)\n        kin_new", "        write_xyz_trajectory(conf_out, xyz * 1.0001, vel, atoms, box, append=False)\n        kin_new", "R-16.1", control=True),
    B("c16-lammps-positions-shifted", LAMMPS, "        conf_out = os.path.join(self.exe_dir, f\"genvel.{self.ext}\")\n        write_lammpstrj(conf_out, id_type, xyz, vel, box)", "        conf_out = os.path.join(self.exe_dir, f\"genvel.{self.ext}\")\n        xyz -= box[:, 0]\n        write_lammpstrj(conf_out, id_type, xyz, vel, box)", "R-16.1"),
    B("c16-gromacs-velocities-as-positions", GROMACS, "            write_gromos96_file(conf_out, txt, xyz, vel)", "            write_gromos96_file(conf_out, txt, vel, vel)", "R-16.1"),
    B("c16-turtle-velocities-kept", TURTLE, "        vel, _ = self.draw_maxwellian_velocities(vel, mass, beta)\n        # we do not reset momentum by default", "        # we do not reset momentum by default", "R-16.1"),
    B("c16-turtle-box-replaced", TURTLE, "        write_xyz_trajectory(conf_out, xyz, vel, atoms, box, append=False)\n        kin_new", "        box = self.box.length\n        write_xyz_trajectory(conf_out, xyz, vel, atoms, box, append=False)\n        kin_new", "R-16.1"),
    B("c16-ase-positions-rattled", ASE, "        kin_old = atoms.get_kinetic_energy()\n", "        kin_old = atoms.get_kinetic_energy()\n        atoms.rattle(1e-6)\n", "R-16.1"),
    B("c16-lammps-overwrites-source", LAMMPS, "        conf_out = os.path.join(self.exe_dir, f\"genvel.{self.ext}\")\n        write_lammpstrj(conf_out, id_type, xyz, vel, box)", "        conf_out = pos\n        write_lammpstrj(conf_out, id_type, xyz, vel, box)", "R-16.2", control=True),
    B("c16-cp2k-config-not-repointed", CP2K, "        kin_new = kinetic_energy(vel, mass)[0]\n        system.config = (conf_out, 0)\n        system.ekin = kin_new\n        if kin_old == 0.0:\n            dek = float(\"inf\")\n            logger.debug(\n                \"Kinetic energy not found for previous point.\"\n                \"\\n(This happens when the initial configuration \"\n                \"does not contain energies.)\"\n            )\n        else:\n            dek = kin_new - kin_old\n        return dek, kin_new\n", "        kin_new = kinetic_energy(vel, mass)[0]\n        system.ekin = kin_new\n        if kin_old == 0.0:\n            dek = float(\"inf\")\n        else:\n            dek = kin_new - kin_old\n        return dek, kin_new\n", "R-16.2"),
    B("c16-caller-passes-path-frame", TIS, "    shpt_copy = shooting_point.copy()\n    logger.info(\"Shooting from order", "    shpt_copy = shooting_point\n    logger.info(\"Shooting from order", "R-16.2"),
    B("c16-turtle-no-momentum-reset", TURTLE, "        if vel_settings.get(\"zero_momentum\", False):\n            vel = reset_momentum(vel, mass)\n\n        conf_out = os.path.join(self.exe_dir, f\"genvel.{self.ext}\")\n        write_xyz_trajectory", "        conf_out = os.path.join(self.exe_dir, f\"genvel.{self.ext}\")\n        write_xyz_trajectory", "R-16.3", control=True),
    B("c16-ase-reset-disabled", ASE, "        if vel_settings.get(\"zero_momentum\", False):\n            # TODO: should we preserve", "        if False:\n            # TODO: should we preserve", "R-16.3"),
    B("c16-gromacs-external-ignores-false", GROMACS, "                raise ValueError(msg)\n            posvel, energy = self._prepare_shooting_point(pos)", "                logger.warning(msg)\n            posvel, energy = self._prepare_shooting_point(pos)", "R-16.3"),
    B("c16-ase-ekin-before-stationary", ASE, "        if vel_settings.get(\"zero_momentum\", False):\n            # TODO: should we preserve temperature or not?\n            # The other engines do not bother to preserve the temperature\n            Stationary(atoms, preserve_temperature=False)\n        kin_new = atoms.get_kinetic_energy()\n", "        kin_new = atoms.get_kinetic_energy()\n        if vel_settings.get(\"zero_momentum\", False):\n            # TODO: should we preserve temperature or not?\n            # The other engines do not bother to preserve the temperature\n            Stationary(atoms, preserve_temperature=False)\n", "R-16.4", control=True, why="pre-fix D8"),
    B("c16-lammps-ekin-before-unit-scaling", LAMMPS, "        vel, _ = self.draw_maxwellian_velocities(vel, mass, self.beta)\n        # convert to correct units\n        vel /= scale", "        vel, _ = self.draw_maxwellian_velocities(vel, mass, self.beta)\n        kin_new = kinetic_energy(vel, mass)[0]\n        # convert to correct units\n        vel /= scale", "R-16.4",
      also=[(LAMMPS, "        write_lammpstrj(conf_out, id_type, xyz, vel, box)\n        kin_new = kinetic_energy(vel, mass)[0]\n", "        write_lammpstrj(conf_out, id_type, xyz, vel, box)\n")]),
    B("c16-turtle-ekin-not-stored", TURTLE, "        system.config = (conf_out, 0)\n        system.ekin = kin_new\n        if kin_old == 0.0:\n            dek = float(\"inf\")\n            logger.debug(\n                \"Kinetic energy not found for previous point.\"\n                \"\\n(This happens when the initial configuration \"\n                \"does not contain energies.)\"\n            )\n        else:\n            dek = kin_new - kin_old\n        return dek, kin_new\n", "        system.config = (conf_out, 0)\n        system.ekin = kin_old\n        if kin_old == 0.0:\n            dek = float(\"inf\")\n        else:\n            dek = kin_new - kin_old\n        return dek, kin_new\n", "R-16.4"),
    K("c16-keep-lammps-scale-assign", LAMMPS, "        vel /= scale\n", "        vel = vel / scale\n"),
    K("c16-keep-turtle-ekin-before-write", TURTLE, "        write_xyz_trajectory(conf_out, xyz, vel, atoms, box, append=False)\n        kin_new = kinetic_energy(vel, mass)[0]\n", "        kin_new = kinetic_energy(vel, mass)[0]\n        write_xyz_trajectory(conf_out, xyz, vel, atoms, box, append=False)\n"),
    K("c16-keep-ase-outfile-local", ASE, "        conf_out = os.path.join(self.exe_dir, \"genvel.traj\")\n        atoms.write(conf_out)", "        out_dir = self.exe_dir\n        conf_out = os.path.join(out_dir, \"genvel.traj\")\n        atoms.write(conf_out)"),
    K("c16-keep-cp2k-keyword-args", CP2K, "        write_xyz_trajectory(conf_out, xyz, vel, atoms, box, append=False)\n        kin_new", "        write_xyz_trajectory(conf_out, xyz, vel, names=atoms, box=box, append=False)\n        kin_new"),
]
