"""C16 - velocity regeneration changes only velocities.

Write-what-you-read provenance in every modify_velocities implementation,
fresh output file, momentum reset position, kinetic energy computed from the
velocities that are written.
"""

from __future__ import annotations

import ast

from ..flow import deref, flow_of, path_of
from ..loader import FUNC, AnalysisError, dotted, last_name, loc, short, walk_local, enclosing_stmt
from ..util import AMS, ASE, CP2K, ENGBASE, GROMACS, LAMMPS, TIS, TURTLE, kwarg
from ..variants import B, K

EXPLANATION = (
    "For every in-process modify_velocities (CP2K, LAMMPS, TurtleMD, GROMACS "
    "infretis_genvel branch, ASE): (R-16.1) the positions, box and atom "
    "identities handed to the writer are exactly the values returned by the "
    "reader of the dumped frame in the same function - no store, in-place "
    "operator or mutating call in between - and only the velocity argument is "
    "redefined (from draw_maxwellian_velocities); (R-16.2) the file written is "
    "a fresh name under exe_dir, never the frame's own file, and system.config "
    "is re-pointed to it; the caller passes a copy of the frame; (R-16.3) "
    "zero_momentum is consulted and the reset lies between draw and write; "
    "(R-16.4) the reported kinetic energy is computed from the final written "
    "velocities; (R-16.5) draws come from the job stream (shared with C07); "
    "(R-16.8) the variance clause as a chain of symbolic identities: the single draw is "
    "normal(loc=0, scale=sigma_v) with sigma_v^2 * beta * mass == 1 (monomial algebra on the "
    "expression), every engine constructor sets beta with beta * kB * T == 1, kB equals the "
    "Boltzmann constant in the engine's energy unit (table: kJ/mol, kcal/mol, hartree, eV; "
    "relative tolerance 1e-4), the draw is given self.beta, and between the draw and the writer "
    "the velocities are only re-centred or divided once by the engine's unit factor "
    "(LAMMPS real units: 48.888...), never rescaled otherwise."
)
NOT_DECIDED = (
    "the mass tables (CP2K amu -> electron masses, LAMMPS data file) and that the user's LAMMPS input "
    "really uses `units real`; Gaussianity and independence of the components (NumPy); ASE delegates the "
    "draw to MaxwellBoltzmannDistribution(temperature_K=...) which is trusted"
)
ASSUMPTIONS = [
    "kinetic_energy does not modify its arguments (read in cp2k.py); whether reset_momentum works in place is read from its source on every run",
    "ASE MaxwellBoltzmannDistribution / Stationary modify momenta only",
]

WRITERS = {
    # name -> roles by positional index
    "write_xyz_trajectory": {"file": 0, "pos": 1, "vel": 2, "ids": 3, "box": 4},
    "write_lammpstrj": {"file": 0, "ids": 1, "pos": 2, "vel": 3, "box": 4},
    "write_gromos96_file": {"file": 0, "ids": 1, "pos": 2, "vel": 3, "box": 4},
}
READERS = {"_read_configuration", "read_lammpstrj", "read_gromos96_file"}
INPLACE = {"reset_momentum": [0], "shift_boxbounds": [0, 1]}
ASE_POS_MUTATORS = {"set_positions", "set_cell", "translate", "rattle", "set_scaled_positions", "wrap", "center", "rotate", "set_pbc", "set_atomic_numbers", "set_chemical_symbols", "set_masses", "pop", "append", "extend"}


def _mutates_param_in_place(tree, fname, idx=0):
    """Does the repository function `fname` modify its idx-th parameter in place (augmented
    assignment to the name, item / slice store, or an in-place method)? Read from the source on
    every run instead of trusting a table."""
    for m, q, g in tree.all_funcs():
        if g.name != fname or "." in q:
            continue
        ps = [a.arg for a in g.args.args]
        if idx >= len(ps):
            return None
        p = ps[idx]
        rebinds = [n for n in walk_local(g) if isinstance(n, ast.Assign) and any(isinstance(t, ast.Name) and t.id == p for t in n.targets)]
        for n in walk_local(g):
            if isinstance(n, ast.AugAssign) and ((isinstance(n.target, ast.Name) and n.target.id == p) or (isinstance(n.target, ast.Subscript) and path_of(n.target.value) == p)):
                if not rebinds:
                    return True
            if isinstance(n, ast.Assign) and any(isinstance(t, ast.Subscript) and path_of(t.value) == p for t in n.targets) and not rebinds:
                return True
        return False
    return None


def implementations(tree):
    out = []
    for m, name, c in tree.subclasses("EngineBase"):
        for st in c.body:
            if isinstance(st, FUNC) and st.name == "modify_velocities":
                out.append((m, name, st))
    return out


def _mutations_between(fl, cfg, name, a, b, allow_defs=()):
    """In-place changes of `name` on a path a ->* b."""
    out = []
    f = fl.func
    ra = cfg.reachable(a)
    for s in walk_local(f):
        hit = None
        if isinstance(s, ast.AugAssign) and (path_of(s.target) == name or (isinstance(s.target, ast.Subscript) and path_of(s.target.value) == name)):
            hit = s
        if isinstance(s, ast.Assign) and any(isinstance(t, ast.Subscript) and path_of(t.value) == name for t in s.targets):
            hit = s
        if isinstance(s, ast.Call):
            ln = last_name(s)
            if ln in INPLACE:
                for i in INPLACE[ln]:
                    if i < len(s.args) and path_of(s.args[i]) == name:
                        hit = s
            if isinstance(s.func, ast.Attribute) and path_of(s.func.value) == name and s.func.attr in ("sort", "fill", "resize", "put", "clip", "round"):
                hit = s
            for k in s.keywords:
                if k.arg == "out" and path_of(k.value) == name:
                    hit = s
        if hit is not None and cfg.nodes_of(hit):
            n = cfg.node_of(hit)
            if n.id in ra and cfg.reaches(n, b):
                out.append(hit)
    return out


def array_engine(ctx, m, cname, f, writer_calls):
    fl = flow_of(f)
    cfg = fl.cfg
    for W in writer_calls:
        roles = WRITERS[last_name(W)]
        wn = cfg.node_of(W)

        def arg(role):
            i = roles[role]
            if i < len(W.args):
                return W.args[i]
            kw = {"pos": ("xyz", "pos"), "vel": ("vel",), "box": ("box",), "ids": ("names", "id_type", "raw"), "file": ("filename", "outfile")}[role]
            for k in W.keywords:
                if k.arg in kw:
                    return k.value
            return None

        # ---- R-16.1
        snapshot = {}
        for role in ("pos", "ids", "box"):
            a = arg(role)
            if a is None:
                if role == "box" and last_name(W) == "write_gromos96_file":
                    # the box block is part of the raw text the reader returned (txt["BOX"])
                    continue
                ctx.bad("R-16.1", W, f"{cname}.modify_velocities writes no {role}: the regenerated frame loses it")
                continue
            p = path_of(a)
            bad = None
            if p is None:
                bad = f"the {role} argument is a computed expression ({short(a, 40)}), not the value read from the dumped frame"
            else:
                rds = fl.rd(p, wn)
                def _rcall(d):
                    v_ = d.value
                    if isinstance(v_, ast.Name):  # frame = reader(...); a, b, c, d = frame
                        v_, _ = deref(fl, v_, d.at)
                    return v_ if isinstance(v_, ast.Call) and last_name(v_) in READERS else None
                read_defs = [d for d, sfx in rds if d.kind == "unpack" and _rcall(d) is not None]
                other = [d for d, sfx in rds if d not in read_defs]
                if not read_defs:
                    bad = f"the {role} written does not come from the reader of the dumped frame"
                snapshot[role] = [_rcall(d) for d in read_defs]
                # a reader that post-processes coordinates is not a reader of the frame *as stored*
                for d in read_defs:
                    rc_ = _rcall(d)
                    if role == "pos" and isinstance(rc_.func, ast.Attribute) and path_of(rc_.func.value) == "self":
                        cls_ = getattr(f, "_parent", None)
                        meth = next((s_ for s_ in getattr(cls_, "body", []) if isinstance(s_, FUNC) and s_.name == rc_.func.attr), None)
                        shifts = [c_ for c_ in walk_local(meth) if isinstance(c_, ast.Call) and last_name(c_) in INPLACE and last_name(c_) != "reset_momentum"] if meth is not None else []
                        if shifts:
                            bad = f"the positions written come from `{short(rc_, 40)}`, which post-processes the coordinates it reads (`{short(shifts[0], 40)}`): the regenerated frame is written with translated positions"
                for d in other:
                    ok_none = False
                    if role == "box":
                        # definition from None: `if box is None: box, _ = read_cp2k_box(...)`
                        g = [(ast.unparse(e), t) for e, t, _ in cfg.guards(d.at)]
                        if any(x == f"{p} is None" and t for x, t in g):
                            ok_none = True
                    if role == "ids" and d.kind == "item" and "VELOCITY" in ast.unparse(d.stmt.targets[0]):
                        ok_none = True  # txt["VELOCITY"] header block, not identities
                    if not ok_none:
                        bad = f"the {role} read from the frame is redefined before it is written ({short(d.stmt, 60) if d.stmt is not None else d.kind})"
                if bad is None and read_defs:
                    muts = []
                    for d in read_defs:
                        muts += _mutations_between(fl, cfg, p, d.at, wn)
                    muts = [x for x in muts if not (role == "ids" and "VELOCITY" in ast.unparse(x))]
                    if muts:
                        bad = f"the {role} read from the frame is modified in place before it is written ({short(muts[0], 60)})"
            if bad:
                ctx.bad("R-16.1", W, f"{cname}.modify_velocities: {bad}: velocity regeneration must change velocities only",
                        construct=f"{last_name(W)}(..., {role}={short(a, 40) if a is not None else '-'})")
            else:
                ctx.ok("R-16.1", W, f"{cname}: {role} written is exactly what the reader of the dumped frame returned")
        # one snapshot: positions and box (and identities) are results of the same read of the dumped frame
        if snapshot.get("pos") and snapshot.get("box") and not (set(map(id, snapshot["pos"])) & set(map(id, snapshot["box"]))):
            ctx.bad("R-16.1", W, f"{cname}.modify_velocities writes positions read by `{short(snapshot['pos'][0], 40)}` together with a box read by `{short(snapshot['box'][0], 40)}`: two readers of the dumped frame need not return the same representation (origin shift, box form), so the regenerated frame no longer has the positions of the shooting point relative to its box",
                    construct=f"{last_name(W)}: positions and box from different reads")
        elif snapshot.get("pos") and snapshot.get("box"):
            ctx.ok("R-16.1", W, f"{cname}: positions and box written are results of one read of the dumped frame")
        # velocity must be the regenerated one
        v = arg("vel")
        vp = path_of(v) if v is not None else None
        drawn = False
        if vp:
            deps = fl.deps(v, wn)
            drawn = any(k == "call" and key.endswith("draw_maxwellian_velocities") for k, key in deps)
        if drawn:
            ctx.ok("R-16.1", W, f"{cname}: the velocity written derives from draw_maxwellian_velocities")
        else:
            ctx.bad("R-16.1", W, f"{cname}.modify_velocities writes velocities that do not derive from draw_maxwellian_velocities (the old velocities are kept)")
        # ---- R-16.2
        fa = arg("file")
        fdeps = fl.deps(fa, wn) if fa is not None else set()
        uses_exe = any(k in ("param", "free") and key == "self.exe_dir" for k, key in fdeps)
        uses_src = any(k in ("param", "free") and ("system.config" in key) for k, key in fdeps) or any(k == "call" and key.endswith("dump_frame") for k, key in fdeps)
        if uses_exe and not uses_src:
            ctx.ok("R-16.2", W, f"{cname}: regenerated frame is written to a fresh file under exe_dir")
        else:
            ctx.bad("R-16.2", W, f"{cname}.modify_velocities writes into the file of the frame it was taken from (or not under exe_dir): the source frame is altered",
                    construct=f"{last_name(W)}({short(fa, 50) if fa is not None else '-'}, ...)")
        cfg_stores = [d for d in fl.defs if d.path == "system.config" and d.kind == "assign"]
        ok_cfg = False
        for d in cfg_stores:
            if isinstance(d.value, ast.Tuple) and d.value.elts and fa is not None and ast.unparse(d.value.elts[0]) == ast.unparse(fa):
                ok_cfg = True
        if ok_cfg:
            ctx.ok("R-16.2", cfg_stores[0].stmt, f"{cname}: system.config re-pointed to the written file")
        else:
            ctx.bad("R-16.2", W, f"{cname}.modify_velocities does not re-point system.config to the file it wrote: the shooting point still references the old velocities")
        # ---- R-16.3
        draws = [c for c in walk_local(f) if isinstance(c, ast.Call) and last_name(c) == "draw_maxwellian_velocities"]
        resets = [c for c in walk_local(f) if isinstance(c, ast.Call) and last_name(c) == "reset_momentum"]
        good = []
        for r in resets:
            rn = cfg.node_of(r)
            g = [e for e, t, _ in cfg.guards(rn) if t and "zero_momentum" in ast.unparse(e) and "vel_settings" in ast.unparse(e)]
            st = enclosing_stmt(r)
            inplace = _mutates_param_in_place(ctx.tree, "reset_momentum", 0)
            # the reset reaches the written velocities if its result is bound to them, or if the
            # helper really works in place on the array it is given (checked in its source)
            assigned = (isinstance(st, ast.Assign) and path_of(st.targets[0]) == vp and r.args and path_of(r.args[0]) == vp) or (bool(inplace) and r.args and path_of(r.args[0]) == vp)
            if g and any(cfg.reaches(cfg.node_of(d), rn) for d in draws) and cfg.reaches(rn, wn) and assigned:
                good.append(r)
        if good:
            ctx.ok("R-16.3", good[0], f"{cname}: momentum reset under vel_settings['zero_momentum'], between draw and write, on the written velocities")
        else:
            ctx.bad("R-16.3", W, f"{cname}.modify_velocities does not reset the momentum of the written velocities when zero_momentum is requested (reset missing, unguarded, after the write, or applied to another array)")
        # ---- R-16.4
        r164(ctx, cname, f, fl, cfg, vp, wn, W)
        ctx.attempt(r1610, ctx, cname, f)


def r1610(ctx, cname, f):
    """The change in kinetic energy is a difference of like quantities: the old and the new kinetic
    energy that are subtracted are computed by the same expression (same helper, same mass table,
    same unit factor) - only the velocities differ."""
    import copy as _copy
    rid = "R-16.10"
    fl = flow_of(f)
    cfg = fl.cfg

    class T(ast.NodeTransformer):
        def visit_Call(self, c):
            self.generic_visit(c)
            if last_name(c) in ("kinetic_energy", "get_kinetic_energy") and c.args:
                c.args[0] = ast.Name(id="V", ctx=ast.Load())
            return c

    def shape(nm, at):
        """how the kinetic energy held in `nm` was computed, with the velocities abstracted"""
        out = set()
        for d, sfx in fl.rd(nm.id, at):
            if sfx or d.value is None or not isinstance(d.value, ast.AST):
                return None
            if not any(isinstance(x, ast.Call) and last_name(x) in ("kinetic_energy", "get_kinetic_energy") for x in ast.walk(d.value)):
                return None
            txt = ast.unparse(T().visit(_copy.deepcopy(d.value))).replace(" ", "")
            if d.kind == "unpack":
                txt += "#" + ",".join(map(str, d.index))
            elif txt.endswith("[0]"):
                txt = txt[:-3] + "#0"
            out.add(txt)
        return "|".join(sorted(out)) if out else None

    subs = [n for n in walk_local(f) if isinstance(n, ast.BinOp) and isinstance(n.op, ast.Sub) and isinstance(n.left, ast.Name) and isinstance(n.right, ast.Name)]
    n_ok = 0
    for st in subs:
        at = cfg.node_of(st)
        a_, b_ = shape(st.left, at), shape(st.right, at)
        if a_ is None or b_ is None:
            continue
        n_ok += 1
        if a_ == b_:
            ctx.ok(rid, st, f"{cname}: old and new kinetic energy are computed alike ({a_})")
        else:
            ctx.bad(rid, st, f"{cname}.modify_velocities subtracts kinetic energies that are computed differently: `{st.left.id}` = `{a_}`, `{st.right.id}` = `{b_}` (V = the velocities): the reported change in kinetic energy mixes two units / mass tables, so it is neither the change nor consistent with the reported new kinetic energy", construct=f"{cname}: {st.left.id} - {st.right.id} = {a_} - {b_}")
    return n_ok


def r164(ctx, cname, f, fl, cfg, vp, wn, W):
    rets = [r for r in walk_local(f) if isinstance(r, ast.Return) and isinstance(r.value, ast.Tuple) and len(r.value.elts) == 2]
    if not rets:
        ctx.bad("R-16.4", f, f"{cname}.modify_velocities does not return (dek, kin_new)")
        return
    for r in rets:
        kn = r.value.elts[1]
        kp = path_of(kn)
        rn = cfg.node_of(r)
        ok = True
        why = ""
        for d, _ in fl.rd(kp, rn) if kp else []:
            if d.stmt is None or not cfg.reaches(d.at, rn):
                continue
            v = d.value
            calls = [c for c in ast.walk(v) if isinstance(c, ast.Call) and last_name(c) == "kinetic_energy"] if isinstance(v, ast.AST) else []
            if not calls:
                # external GROMACS branch: energy from the program that generated the velocities
                if "energy" in ast.unparse(v):
                    continue
                ok, why = False, f"kin_new is not computed by kinetic_energy(...) ({short(v, 40)})"
                continue
            a0 = calls[0].args[0]
            if path_of(a0) != vp:
                ok, why = False, f"kin_new is computed from {short(a0, 30)}, not from the velocities that are written ({vp})"
                continue
            v_at_k = {x.id for x, _ in fl.rd(vp, d.at)}
            v_at_w = {x.id for x, _ in fl.rd(vp, wn)}
            if v_at_k != v_at_w:
                ok, why = False, "kin_new is computed from an earlier version of the velocities than the one written (a later rescaling / momentum reset is not included)"
        # system.ekin
        if not any(d.path == "system.ekin" and path_of(d.value) == kp for d in fl.defs if d.kind == "assign"):
            ok, why = False, "system.ekin is not set to the reported kinetic energy"
        if ok:
            ctx.ok("R-16.4", r, f"{cname}: kin_new computed from the same version of the velocities that is written; system.ekin = kin_new")
        else:
            ctx.bad("R-16.4", r, f"{cname}.modify_velocities: {why}", construct=f"return {short(r.value, 40)}")


def ase_engine(ctx, m, cname, f):
    fl = flow_of(f)
    cfg = fl.cfg
    writes = [c for c in walk_local(f) if isinstance(c, ast.Call) and isinstance(c.func, ast.Attribute) and c.func.attr == "write"]
    mb = [c for c in walk_local(f) if isinstance(c, ast.Call) and last_name(c) in ("MaxwellBoltzmannDistribution", "thermalize_momenta")]
    if not writes or not mb:
        raise AnalysisError("C16: ASE modify_velocities: writer or MaxwellBoltzmannDistribution call not found")
    W = writes[0]
    wn = cfg.node_of(W)
    obj = path_of(W.func.value)
    # R-16.1: the atoms object read from the dumped frame, positions untouched
    srcs = fl.sources(W.func.value, wn)
    from_read = all(k == "expr" and isinstance(n, ast.Call) and last_name(n) == "read" or (k.startswith("sub:") or k == "expr" and isinstance(n, ast.Subscript)) for k, n, _, _ in srcs)
    muts = [c for c in walk_local(f) if isinstance(c, ast.Call) and isinstance(c.func, ast.Attribute) and path_of(c.func.value) == obj and c.func.attr in ASE_POS_MUTATORS]
    muts += [s for s in walk_local(f) if isinstance(s, (ast.Assign, ast.AugAssign)) and any(isinstance(t, (ast.Attribute, ast.Subscript)) and ast.unparse(t).startswith(obj + ".") and any(x in ast.unparse(t) for x in ("positions", "cell", "numbers", "pbc")) for t in (s.targets if isinstance(s, ast.Assign) else [s.target]))]
    if from_read and not muts:
        ctx.ok("R-16.1", W, f"{cname}: the Atoms object read from the dumped frame is written back; no position/cell/identity mutator is called on it")
    else:
        ctx.bad("R-16.1", muts[0] if muts else W, f"{cname}.modify_velocities changes positions, cell or identities of the frame (or writes an object not read from it)")
    if any(cfg.reaches(cfg.node_of(c), wn) for c in mb):
        ctx.ok("R-16.1", mb[0], f"{cname}: velocities regenerated by {last_name(mb[0])} before the write")
    else:
        ctx.bad("R-16.1", W, f"{cname}.modify_velocities writes without regenerating velocities")
    # R-16.2
    fa = W.args[0] if W.args else None
    fdeps = fl.deps(fa, wn) if fa is not None else set()
    if any(k in ("param", "free") and key == "self.exe_dir" for k, key in fdeps) and not any(k == "call" and key.endswith("dump_frame") for k, key in fdeps):
        ctx.ok("R-16.2", W, f"{cname}: regenerated frame is written to a fresh file under exe_dir")
    else:
        ctx.bad("R-16.2", W, f"{cname}.modify_velocities writes into the file of the frame it was taken from")
    if any(d.path == "system.config" and isinstance(d.value, ast.Tuple) and fa is not None and ast.unparse(d.value.elts[0]) == ast.unparse(fa) for d in fl.defs):
        ctx.ok("R-16.2", W, f"{cname}: system.config re-pointed to the written file")
    else:
        ctx.bad("R-16.2", W, f"{cname}.modify_velocities does not re-point system.config to the file it wrote")
    # R-16.3
    st = [c for c in walk_local(f) if isinstance(c, ast.Call) and last_name(c) in ("Stationary", "ZeroRotation")]
    stat = [c for c in st if last_name(c) == "Stationary"]
    good = [c for c in stat if any(t and "zero_momentum" in ast.unparse(e) for e, t, _ in cfg.guards(cfg.node_of(c))) and cfg.reaches(cfg.node_of(c), wn) and any(cfg.reaches(cfg.node_of(x), cfg.node_of(c)) for x in mb)]
    if good:
        ctx.ok("R-16.3", good[0], f"{cname}: Stationary under vel_settings['zero_momentum'], between draw and write")
    else:
        ctx.bad("R-16.3", W, f"{cname}.modify_velocities does not remove the total momentum when zero_momentum is requested (missing, unguarded or after the write)")
    # R-16.4: kin_new after the last momentum mutation
    rets = [r for r in walk_local(f) if isinstance(r, ast.Return) and isinstance(r.value, ast.Tuple) and len(r.value.elts) == 2]
    for r in rets:
        kp = path_of(r.value.elts[1])
        rn = cfg.node_of(r)
        ok, why = True, ""
        for d, _ in fl.rd(kp, rn) if kp else []:
            if not (isinstance(d.value, ast.Call) and isinstance(d.value.func, ast.Attribute) and d.value.func.attr == "get_kinetic_energy" and path_of(d.value.func.value) == obj):
                ok, why = False, "kin_new is not the kinetic energy of the written Atoms object"
                continue
            later = [c for c in mb + st if cfg.reaches(d.at, cfg.node_of(c)) and cfg.reaches(cfg.node_of(c), wn)]
            if later:
                ok, why = False, f"kin_new is computed before {last_name(later[0])} changes the momenta that are written: (dek, kin_new) describe velocities that were never written"
        if not any(d.path == "system.ekin" and path_of(d.value) == kp for d in fl.defs if d.kind == "assign"):
            ok, why = False, "system.ekin is not set to the reported kinetic energy"
        if ok:
            ctx.ok("R-16.4", r, f"{cname}: kin_new taken after the last momentum change and before/at the write")
        else:
            ctx.bad("R-16.4", r, f"{cname}.modify_velocities: {why}", construct=f"return {short(r.value, 40)}")


def external_gromacs(ctx, m, cname, f):
    """The gmx-driven branch: must refuse zero_momentum False, and take energies from that run."""
    fl = flow_of(f)
    cfg = fl.cfg
    raises = [r for r in walk_local(f) if isinstance(r, ast.Raise)]
    ok = False
    for r in raises:
        g = [ast.unparse(e) for e, t, _ in cfg.guards(cfg.node_of(r)) if t]
        if any("zero_momentum" in x and "is False" in x for x in g):
            ok = True
    if ok:
        ctx.ok("R-16.3", raises[0], f"{cname} (external gmx velocity generation) refuses zero_momentum = False with a ValueError")
    else:
        ctx.bad("R-16.3", f, f"{cname}: the external velocity generation silently ignores zero_momentum = False")


def r16_caller(ctx):
    f = ctx.tree.func(TIS, "prepare_shooting_point")
    fl = flow_of(f)
    for c in [c for c in walk_local(f) if isinstance(c, ast.Call) and last_name(c) == "modify_velocities"]:
        srcs = fl.sources(c.args[0], fl.cfg.node_of(c))
        if all(k == "expr" and isinstance(n, ast.Call) and isinstance(n.func, ast.Attribute) and n.func.attr == "copy" for k, n, _, _ in srcs):
            ctx.ok("R-16.2", c, "prepare_shooting_point hands a copy of the frame to modify_velocities: the path's own frame keeps its configuration reference")
        else:
            ctx.bad("R-16.2", c, "prepare_shooting_point hands a frame of the old path itself to modify_velocities (which re-points its config)")


# ---------------------------------------------------------------- R-16.8 variance = kT/m (symbolic)
def _mono(e, env):
    """Monomial (coeff, {symbol: power}) of a product/quotient expression; None otherwise."""
    from fractions import Fraction
    if isinstance(e, ast.Constant) and isinstance(e.value, (int, float)) and not isinstance(e.value, bool):
        return (Fraction(str(e.value)), {})
    if isinstance(e, ast.Name):
        if e.id in env:
            return env[e.id]
        return (Fraction(1), {e.id: 1})
    if isinstance(e, ast.Attribute) and isinstance(e.value, ast.Name) and e.value.id == "self":
        return (Fraction(1), {"self." + e.attr: 1})
    if isinstance(e, ast.BinOp) and isinstance(e.op, (ast.Mult, ast.Div)):
        a, b = _mono(e.left, env), _mono(e.right, env)
        if a is None or b is None:
            return None
        sg = 1 if isinstance(e.op, ast.Mult) else -1
        if sg == -1 and b[0] == 0:
            return None
        pw = dict(a[1])
        for k, v in b[1].items():
            pw[k] = pw.get(k, 0) + sg * v
        return (a[0] * b[0] if sg == 1 else a[0] / b[0], {k: v for k, v in pw.items() if v != 0})
    if isinstance(e, ast.BinOp) and isinstance(e.op, ast.Pow) and isinstance(e.right, ast.Constant) and isinstance(e.right.value, int):
        a = _mono(e.left, env)
        if a is None:
            return None
        return (a[0] ** e.right.value, {k: v * e.right.value for k, v in a[1].items()})
    if isinstance(e, ast.Call) and last_name(e) in ("reciprocal",) and len(e.args) == 1:
        # as a real-number expression 1/x (its integer-dtype behaviour is judged separately in R-16.8)
        a = _mono(e.args[0], env)
        if a is None or a[0] == 0:
            return None
        return (1 / a[0], {k: -v for k, v in a[1].items()})
    if isinstance(e, ast.Call) and last_name(e) in ("divide", "true_divide", "multiply") and len(e.args) == 2:
        op = ast.Mult() if last_name(e) == "multiply" else ast.Div()
        return _mono(ast.BinOp(left=e.args[0], op=op, right=e.args[1]), env)
    if isinstance(e, ast.Call) and last_name(e) in ("astype", "asarray", "array", "float", "float64") and (e.args or isinstance(e.func, ast.Attribute)):
        return _mono(e.func.value if last_name(e) == "astype" else e.args[0], env)
    return None


def _visibly_float(e):
    """x.astype(float) / np.asarray(x, dtype=float) / float(x) / a float literal factor."""
    if isinstance(e, ast.Call):
        nm = last_name(e)
        if nm in ("float", "float64"):
            return True
        if nm == "astype" and e.args and "float" in ast.unparse(e.args[0]):
            return True
        dt = next((k.value for k in e.keywords if k.arg == "dtype"), None)
        if nm in ("asarray", "array", "asfarray") and (nm == "asfarray" or (dt is not None and "float" in ast.unparse(dt))):
            return True
    if isinstance(e, ast.BinOp) and isinstance(e.op, (ast.Mult, ast.Div)):
        return any(isinstance(x, ast.Constant) and isinstance(x.value, float) for x in (e.left, e.right)) or _visibly_float(e.left) or _visibly_float(e.right)
    return False


KB = {  # Boltzmann constant in the energy unit of the engine (CODATA 2018), relative tolerance 1e-4
    GROMACS: (0.0083144626, "kJ/(mol K)"),
    LAMMPS: (0.0019872043, "kcal/(mol K)"),
    CP2K: (3.1668116e-6, "hartree/K"),
    ASE: (8.6173333e-5, "eV/K"),
}
UNIT_SCALE = {LAMMPS: (48.88821290839617, "sqrt(kcal/g) per (Angstrom/fs)")}


def r168(ctx, impls):
    """Each Cartesian component ~ N(0, kT/m): (1) the draw is normal(loc=0, scale=sigma) with
    sigma^2 * beta * mass == 1 symbolically; (2) beta * kB * T == 1 in every engine constructor;
    (3) kB is the Boltzmann constant in the engine's energy unit; (4) between the draw and the
    writer the velocities are only re-centred (reset_momentum) or divided by the engine's unit
    factor (LAMMPS real units) - no other scaling."""
    from fractions import Fraction
    rid = "R-16.8"
    tree = ctx.tree
    d = tree.func(ENGBASE, "EngineBase.draw_maxwellian_velocities")
    params = [a.arg for a in d.args.args]
    env = {}
    sig2 = None
    for st in walk_local(d):
        if isinstance(st, ast.Assign) and isinstance(st.targets[0], ast.Name):
            v = st.value
            if isinstance(v, ast.Call) and last_name(v) == "sqrt" and len(v.args) == 1:
                mm = _mono(v.args[0], env)
                if mm is not None and st.targets[0].id == "sigma_v":
                    sig2 = (mm, st)
                continue
            mm = _mono(v, env)
            if mm is not None:
                env[st.targets[0].id] = mm
    if sig2 is None:
        raise AnalysisError("R-16.8: sigma_v = sqrt(<product>) not found in draw_maxwellian_velocities")
    (c, pw), st = sig2
    for x in ast.walk(st.value):
        if isinstance(x, ast.Call) and last_name(x) == "reciprocal" and x.args and not _visibly_float(x.args[0]):
            ctx.bad(rid, x, f"draw_maxwellian_velocities computes 1/mass as `{short(x, 40)}`: numpy.reciprocal keeps the dtype of its argument, so for masses given as whole numbers in the .toml file (an integer array) every mass above 1 gives 0 - sigma is 0 and the regenerated velocities of those atoms are exactly zero instead of having variance kT/m (true division `1 / mass` converts to float)", construct="sigma_v through numpy.reciprocal of a possibly integer array")
        if isinstance(x, ast.BinOp) and isinstance(x.op, ast.FloorDiv):
            ctx.bad(rid, x, f"draw_maxwellian_velocities uses floor division in sigma_v (`{short(x, 40)}`): the variance of a velocity component is not kT/m", construct="sigma_v with floor division")
    pw = dict(pw)
    pw["beta"] = pw.get("beta", 0) + 1
    pw["mass"] = pw.get("mass", 0) + 1
    pw = {k: v for k, v in pw.items() if v != 0}
    if c == 1 and not pw:
        ctx.ok(rid, st, "draw_maxwellian_velocities: sigma_v^2 * beta * mass == 1 (variance kT/m)")
    else:
        ctx.bad(rid, st, f"draw_maxwellian_velocities: sigma_v^2 * beta * mass = {c} * {pw or 1}, not 1: the variance of a velocity component is not kT/m", construct="sigma_v " + short(st, 60))
    normals = [c_ for c_ in walk_local(d) if isinstance(c_, ast.Call) and last_name(c_) == "normal"]
    if len(normals) != 1:
        raise AnalysisError("R-16.8: exactly one normal() draw expected in draw_maxwellian_velocities")
    nm = normals[0]
    loc, scale = kwarg(nm, "loc", 0), kwarg(nm, "scale", 1)
    if isinstance(loc, ast.Constant) and loc.value == 0 and isinstance(scale, ast.Name) and scale.id == "sigma_v":
        ctx.ok(rid, nm, "the draw is normal(loc=0, scale=sigma_v): zero mean, standard deviation sigma_v")
    else:
        ctx.bad(rid, nm, f"the draw is normal(loc={short(loc, 20) if loc is not None else '?'}, scale={short(scale, 20) if scale is not None else '?'}): not zero-mean with standard deviation sigma_v", construct="normal() arguments " + short(nm, 60))
    # (2)+(3) constructors
    for m, cname, f in impls:
        if m.rel in (AMS,):
            continue
        cls = tree.cls(m.rel, cname)
        init = next((s for s in cls.body if isinstance(s, FUNC) and s.name == "__init__"), None)
        if init is None:
            raise AnalysisError(f"R-16.8: {cname}.__init__ not found")
        beta = kbv = None
        for st in walk_local(init):
            if isinstance(st, ast.Assign) and isinstance(st.targets[0], ast.Attribute) and isinstance(st.targets[0].value, ast.Name) and st.targets[0].value.id == "self":
                if st.targets[0].attr == "_beta":
                    beta = st
                if st.targets[0].attr in ("kb", "boltzmann"):
                    kbv = st
        if beta is None:
            raise AnalysisError(f"R-16.8: {cname}.__init__ does not set self._beta")
        mm = _mono(beta.value, {})
        kname = "self.kb" if m.rel != TURTLE else "self.boltzmann"
        if mm is not None:
            c, pw = mm
            pw = dict(pw)
            pw[kname] = pw.get(kname, 0) + 1
            pw["self.temperature"] = pw.get("self.temperature", 0) + 1
            pw = {k: v for k, v in pw.items() if v != 0}
        if mm is not None and c == 1 and not pw:
            ctx.ok(rid, beta, f"{cname}: beta * kB * T == 1")
        else:
            ctx.bad(rid, beta, f"{cname}: `{short(beta, 60)}` is not 1 / (kB * T): the velocities are generated at another temperature", construct=f"{cname}: {short(beta, 60)}")
        if m.rel in KB:
            ref, unit = KB[m.rel]
            if kbv is None or not (isinstance(kbv.value, ast.Constant) and isinstance(kbv.value.value, float)):
                raise AnalysisError(f"R-16.8: {cname}.kb is not a literal")
            if abs(kbv.value.value - ref) <= 1e-4 * ref:
                ctx.ok(rid, kbv, f"{cname}: kB = {kbv.value.value} is the Boltzmann constant in {unit}")
            else:
                ctx.bad(rid, kbv, f"{cname}: kB = {kbv.value.value} is not the Boltzmann constant in {unit} ({ref}): temperature of the generated velocities is off by the ratio", construct=f"{cname}.kb = {kbv.value.value}")
    # (4) between draw and writer
    for m, cname, f in impls:
        if m.rel in (AMS, ASE):
            continue
        draws = [c_ for c_ in walk_local(f) if isinstance(c_, ast.Call) and last_name(c_) == "draw_maxwellian_velocities"]
        if not draws:
            ctx.bad(rid, f, f"{cname}.modify_velocities does not draw from draw_maxwellian_velocities")
            continue
        dr = draws[0]
        b = dr.args[2] if len(dr.args) > 2 else kwarg(dr, "beta")
        fl = flow_of(f)
        srcs = fl.sources(b, fl.cfg.node_of(dr)) if b is not None else []
        okb = b is not None and (path_of(b) == "self.beta" or (srcs and all((k in ("free", "param") and str(x) == "self.beta") or (k == "expr" and isinstance(n_, ast.AST) and ast.unparse(n_) == "self.beta") for k, n_, _, x in srcs)))
        if okb:
            ctx.ok(rid, dr, f"{cname}: the draw uses the engine's own beta")
        else:
            ctx.bad(rid, dr, f"{cname}: draw_maxwellian_velocities is not given self.beta ({short(b, 30) if b is not None else 'missing'})", construct=f"{cname}: beta argument of the draw")
        # scalings of the velocity name after the draw
        st = enclosing_stmt(dr)
        vname = st.targets[0].elts[0].id if isinstance(st, ast.Assign) and isinstance(st.targets[0], ast.Tuple) and isinstance(st.targets[0].elts[0], ast.Name) else None
        if vname is None:
            raise AnalysisError(f"R-16.8: {cname}: result of the draw is not unpacked into a name")
        want = UNIT_SCALE.get(m.rel)
        seen_scale = False
        for x in walk_local(f):
            if x.lineno <= st.lineno if hasattr(x, "lineno") else True:
                continue
            scal = None
            if isinstance(x, ast.AugAssign) and isinstance(x.target, ast.Name) and x.target.id == vname and isinstance(x.op, (ast.Mult, ast.Div)):
                scal = (x.op, x.value, x)
            if isinstance(x, ast.Assign) and isinstance(x.targets[0], ast.Name) and x.targets[0].id == vname and isinstance(x.value, ast.BinOp) and isinstance(x.value.op, (ast.Mult, ast.Div)) and vname in ast.unparse(x.value):
                other = x.value.right if (isinstance(x.value.left, ast.Name) and x.value.left.id == vname) else x.value.left
                scal = (x.value.op, other, x)
            if scal is None:
                continue
            op, val, node = scal
            num = None
            if isinstance(val, ast.Constant) and isinstance(val.value, (int, float)):
                num = float(val.value)
            elif isinstance(val, ast.Name):
                for dd, _ in fl.rd(val.id, fl.cfg.node_of(node)):
                    if isinstance(getattr(dd, "value", None), ast.Constant) and isinstance(dd.value.value, (int, float)):
                        num = float(dd.value.value)
            if want is not None and num is not None and isinstance(op, ast.Div) and abs(num - want[0]) <= 1e-6 * want[0] and not seen_scale:
                seen_scale = True
                ctx.ok(rid, node, f"{cname}: velocities divided once by {want[0]} ({want[1]})")
            else:
                ctx.bad(rid, node, f"{cname}: the drawn velocities are rescaled by `{short(node, 50)}`" + (f" (expected only a division by {want[0]})" if want else " although this engine's units need no conversion") + ": the variance is no longer kT/m in the engine's units", construct=f"{cname}: velocity scaling {short(node, 50)}")
        if want is not None and not seen_scale:
            ctx.bad(rid, dr, f"{cname}: the drawn velocities are not converted to the engine's velocity unit (division by {want[0]}, {want[1]})", construct=f"{cname}: unit conversion missing")


def r1611(ctx):
    """Shape of the momentum reset shared by the engines: total momentum = sum over particles of
    mass * velocity (the product inside the reduction over axis 0), removed as momentum / total
    mass from every particle. `mass * sum(vel)` is a different quantity unless all masses are equal."""
    from ..flow import deref
    rid = "R-16.11"
    tree = ctx.tree
    f = tree.func(CP2K, "reset_momentum")
    ps = [a.arg for a in f.args.args]
    if len(ps) < 2:
        raise AnalysisError("R-16.11: reset_momentum(vel, mass) expected")
    vel, mass = ps[0], ps[1]
    fl = flow_of(f)
    cfg = fl.cfg
    subs = [n for n in walk_local(f) if (isinstance(n, ast.AugAssign) and isinstance(n.op, ast.Sub) and path_of(n.target) == vel) or (isinstance(n, ast.BinOp) and isinstance(n.op, ast.Sub) and path_of(n.left) == vel)]
    if not subs:
        raise AnalysisError("R-16.11: the statement that removes the centre-of-mass velocity was not found")
    st = subs[0]
    corr = st.value if isinstance(st, ast.AugAssign) else st.right
    at = cfg.node_of(st)
    corr, cat = deref(fl, corr, at)
    ok = False
    why = f"the correction `{short(corr, 50)}` is not <total momentum> / <total mass>"
    if isinstance(corr, ast.BinOp) and isinstance(corr.op, ast.Div):
        num, nat = deref(fl, corr.left, cat)
        den, _ = deref(fl, corr.right, cat)
        den_ok = (isinstance(den, ast.Call) and last_name(den) == "sum" and ((isinstance(den.func, ast.Attribute) and path_of(den.func.value) == mass) or (den.args and path_of(den.args[0]) == mass)))
        arg = None
        if isinstance(num, ast.Call) and last_name(num) == "sum":
            arg = num.args[0] if num.args else (num.func.value if isinstance(num.func, ast.Attribute) else None)
            if isinstance(num.func, ast.Attribute) and path_of(num.func.value) not in ("np", "numpy"):
                arg = num.func.value
        prod_inside = isinstance(arg, ast.BinOp) and isinstance(arg.op, ast.Mult) and {path_of(arg.left), path_of(arg.right)} == {vel, mass}
        axis = kwarg(num, "axis", 1) if isinstance(num, ast.Call) else None
        if prod_inside and den_ok and isinstance(axis, ast.Constant) and axis.value == 0:
            ok = True
        elif not prod_inside:
            why = f"the total momentum is computed as `{short(num, 50)}`: the masses are not inside the sum over the particles (sum_i m_i v_i), so for unequal masses the regenerated velocities keep a net momentum"
        elif not den_ok:
            why = f"the momentum is divided by `{short(den, 30)}`, not by the total mass"
    if ok:
        ctx.ok(rid, st, "reset_momentum removes sum_i(m_i v_i) / sum_i(m_i) from every particle")
    else:
        ctx.bad(rid, st, f"reset_momentum: {why}", construct="reset_momentum: " + short(corr, 60))


def r1612(ctx):
    """Velocity generation by the external program uses the engine's current temperature. GROMACS:
    the zero-step input `genvel.mdp` carries `gen-temp = self.temperature` and is re-used when the
    file exists; that is sound only because it lives in the per-job scratch directory
    (`self.exe_dir`, emptied by clean_up() for every job). A re-use-if-present file whose content
    depends on engine parameters must be rooted in exe_dir - anywhere else it is a cache that
    survives a change of the temperature."""
    rid = "R-16.12"
    tree = ctx.tree
    n = 0
    for m, q, f in tree.all_funcs([GROMACS]):
        fl = None
        for st in walk_local(f):
            if not isinstance(st, ast.If):
                continue
            tests = [c for c in ast.walk(st.test) if isinstance(c, ast.Call) and last_name(c) in ("isfile", "exists") and c.args and isinstance(c.args[0], ast.Name)]
            if not tests:
                continue
            pname = tests[0].args[0].id
            # the branch taken when the file is missing writes it from engine parameters
            neg = st.orelse if not (isinstance(st.test, ast.UnaryOp) and isinstance(st.test.op, ast.Not)) else st.body
            writes = [c for b in neg for c in ast.walk(b) if isinstance(c, ast.Call) and any(isinstance(a, ast.Name) and a.id == pname for a in c.args)]
            if not writes:
                continue
            dep_self = sorted({ast.unparse(x) for b in neg for x in ast.walk(b) if isinstance(x, ast.Attribute) and isinstance(x.value, ast.Name) and x.value.id == "self" and x.attr in ("temperature", "timestep", "subcycles", "kb", "_beta")})
            if not dep_self:
                continue
            n += 1
            fl = fl or flow_of(f)
            pe, _ = deref(fl, tests[0].args[0], fl.cfg.node_of(st.test))
            root = pe.args[0] if isinstance(pe, ast.Call) and last_name(pe) == "join" and pe.args else None
            if root is not None and ast.unparse(root) == "self.exe_dir":
                ctx.ok(rid, st, f"{q}: `{pname}` (content depends on {dep_self}) is re-used only within the per-job scratch directory self.exe_dir")
            else:
                ctx.bad(rid, st, f"{q} re-uses `{short(pe, 50)}` when it exists although its content depends on {dep_self} and it is not rooted in the per-job scratch directory: once written it is never refreshed, so a new engine / run on the same input directory with another temperature still generates velocities at the old one (<m v^2> = kB * T_old)", construct=f"{q}: persistent re-use of {short(pe, 50)}")
    if n == 0:
        raise AnalysisError("R-16.12: the re-use-if-present idiom of the velocity-generation input was not found in gromacs.py")


def r1613(ctx, impls):
    """Velocity regeneration reads its settings, it does not consume them. `vel_settings` is the
    ensemble's shared `tis_set` table: a regeneration that pops / deletes / overwrites a key
    changes what every later regeneration of that ensemble (and the restart file) sees - e.g.
    `pop("zero_momentum")` makes the first regeneration honour the option and all later ones
    fall back to the default. No mutator is applied to the settings parameter of any
    modify_velocities (nor to an alias of it)."""
    rid = "R-16.13"
    MUT = ("pop", "popitem", "clear", "update", "setdefault", "__setitem__", "__delitem__")
    n = 0
    for m, cname, f in impls:
        ps = [a.arg for a in f.args.args]
        if len(ps) < 3:
            continue
        sp = ps[2]
        fl = flow_of(f)
        aliases = {sp}
        for st in walk_local(f):
            if isinstance(st, ast.Assign) and len(st.targets) == 1 and isinstance(st.targets[0], ast.Name) and isinstance(st.value, ast.Name) and st.value.id in aliases:
                aliases.add(st.targets[0].id)
        n += 1
        hit = None
        for x in walk_local(f):
            if isinstance(x, ast.Call) and isinstance(x.func, ast.Attribute) and x.func.attr in MUT and isinstance(x.func.value, ast.Name) and x.func.value.id in aliases:
                hit = x
            if isinstance(x, (ast.Assign, ast.AugAssign)):
                for t in (x.targets if isinstance(x, ast.Assign) else [x.target]):
                    if isinstance(t, ast.Subscript) and isinstance(t.value, ast.Name) and t.value.id in aliases:
                        hit = x
            if isinstance(x, ast.Delete) and any(isinstance(t, ast.Subscript) and isinstance(t.value, ast.Name) and t.value.id in aliases for t in x.targets):
                hit = x
        if hit is not None:
            ctx.bad(rid, hit, f"{cname}.modify_velocities modifies the settings table it is handed (`{short(hit, 50)}`): `{sp}` is the ensemble's shared tis_set, so the option is honoured by the first regeneration only - every later regeneration of the ensemble (later jumps of a wire-fencing move, later jobs, a restart) falls back to the default, e.g. velocities with net momentum although zero_momentum = true", construct=f"{cname}.modify_velocities: {short(hit, 50)}")
        else:
            ctx.ok(rid, f, f"{cname}.modify_velocities only reads `{sp}`")
    if n < 4:
        raise AnalysisError(f"R-16.13: only {n} modify_velocities implementations with a settings parameter found")


def r1616(ctx):
    """read_gromos96_file returns its section table with *every* section key present (the table is
    created with all keys and never loses one): an absent section is an empty list. A caller that asks
    `"VELOCITY" in txt` / `not in txt` therefore asks a constant question - the fix-up that gives a
    velocity-less frame its atom labels (`txt["VELOCITY"] = txt["POSITION"]`) must hang on the
    emptiness of the section, or the regenerated velocities are written into an empty block."""
    rid = "R-16.16"
    tree = ctx.tree
    rd = tree.func(GROMACS, "read_gromos96_file")
    # the table: a dict literal with constant keys bound to the name that is element 0 of the returned tuple
    rets = [r for r in walk_local(rd) if isinstance(r, ast.Return) and isinstance(r.value, ast.Tuple) and r.value.elts and isinstance(r.value.elts[0], ast.Name)]
    if not rets:
        raise AnalysisError("R-16.16: read_gromos96_file does not return (table, ...)")
    tname = rets[0].value.elts[0].id
    lits = [st for st in walk_local(rd) if isinstance(st, (ast.Assign, ast.AnnAssign)) and any(isinstance(t, ast.Name) and t.id == tname for t in (st.targets if isinstance(st, ast.Assign) else [st.target])) and isinstance(st.value, ast.Dict)]
    if len(lits) != 1 or not all(isinstance(k, ast.Constant) and isinstance(k.value, str) for k in lits[0].value.keys):
        raise AnalysisError("R-16.16: the section table of read_gromos96_file is not one dict literal with constant keys (cannot decide)")
    keys = {k.value for k in lits[0].value.keys}
    loses = [c for c in walk_local(rd) if (isinstance(c, ast.Call) and isinstance(c.func, ast.Attribute) and c.func.attr in ("pop", "popitem", "clear") and path_of(c.func.value) == tname) or (isinstance(c, ast.Delete) and any(tname in ast.unparse(t) for t in c.targets))]
    if loses:
        raise AnalysisError("R-16.16: read_gromos96_file removes keys from its section table (cannot decide)")
    n = 0
    for m, q, f in tree.all_funcs([GROMACS]):
        fl = None
        for cmp_ in [x for x in walk_local(f) if isinstance(x, ast.Compare) and len(x.ops) == 1 and isinstance(x.ops[0], (ast.In, ast.NotIn)) and isinstance(x.left, ast.Constant) and isinstance(x.left.value, str) and isinstance(x.comparators[0], ast.Name)]:
            fl = fl or flow_of(f)
            nm = cmp_.comparators[0]
            try:
                at = fl.cfg.node_of(cmp_)
            except AnalysisError:
                continue
            defs = fl.rd(nm.id, at)
            from_reader = [d for d, sfx in defs if d.kind == "unpack" and tuple(d.index) == (0,) and isinstance(d.value, ast.Call) and last_name(d.value) == "read_gromos96_file"]
            if not from_reader or len(from_reader) != len(defs):
                continue
            n += 1
            if cmp_.left.value in keys:
                ctx.bad(rid, cmp_, f"{q}: `{short(cmp_, 40)}` tests the presence of a key that read_gromos96_file always provides (sections {sorted(keys)}; an absent section is an empty list): the test is constant, so the branch it guards "
                        + ("never runs" if isinstance(cmp_.ops[0], ast.NotIn) else "always runs") + " - for a frame without velocity lines the VELOCITY block keeps no atom labels, write_gromos96_file writes it empty and the regenerated velocities are dropped while kin_new / system.ekin report them",
                        construct=f"{q}: constant key-presence test {short(cmp_, 40)}")
            else:
                ctx.ok(rid, cmp_, f"{q}: key {cmp_.left.value!r} is not one the reader always provides")
    # the fix-up itself: guarded by the emptiness of the section
    mv = tree.func(GROMACS, "GromacsEngine.modify_velocities")
    fl = flow_of(mv)
    fix = [st for st in walk_local(mv) if isinstance(st, ast.Assign) and isinstance(st.targets[0], ast.Subscript) and isinstance(st.targets[0].slice, ast.Constant) and st.targets[0].slice.value == "VELOCITY" and "POSITION" in ast.unparse(st.value)]
    for st in fix:
        n += 1
        g = [(ast.unparse(e), t) for e, t, bn in fl.cfg.guards(fl.cfg.node_of(st))]
        if any(("['VELOCITY']" in x or '["VELOCITY"]' in x) and " in " not in x and not t for x, t in g) or any(x.startswith("len(") and "VELOCITY" in x for x, t in g):
            ctx.ok(rid, st, "modify_velocities: the label fix-up of the VELOCITY section runs exactly when that section is empty")
        else:
            ctx.bad(rid, st, f"modify_velocities: the label fix-up `{short(st, 50)}` is not guarded by the emptiness of the VELOCITY section (guards: {g})", construct="modify_velocities: VELOCITY label fix-up guard")
    if n == 0:
        raise AnalysisError("R-16.16: neither a key test on the section table nor the VELOCITY label fix-up found")


def run(ctx):
    ctx.rule("R-16.16", "GROMACS: a frame without velocity lines still gets its regenerated velocities written - the label fix-up of the VELOCITY section hangs on the emptiness of the section, not on a key that the reader always provides", floor=1)
    ctx.attempt(r1616, ctx)
    ctx.rule("R-16.1", "positions, box and identities written are exactly those read from the dumped frame; only velocities are regenerated", floor=14)
    ctx.rule("R-16.2", "the regenerated frame goes to a fresh file under exe_dir; system.config re-pointed; caller passes a copy", floor=10)
    ctx.rule("R-16.3", "momentum reset under zero_momentum between draw and write (external gmx refuses False)", floor=5)
    ctx.rule("R-16.4", "reported kinetic energy computed from the velocities that are written; system.ekin set to it", floor=5)
    ctx.rule("R-16.5", "every random draw of velocity regeneration (and of the rest of the move/engine code) uses the job's stream, obtained at call time and never parked in instance state (shared with C07 R-7.4 / R-7.5)", floor=10)
    ctx.rule("R-16.8", "variance clause, symbolically: normal(0, sigma) with sigma^2*beta*mass == 1; beta*kB*T == 1 per engine; kB in the engine's energy unit; no rescaling between draw and writer except the engine's unit factor", floor=14)
    ctx.rule("R-16.7", "the frame index of the configuration that is dumped before velocity regeneration is tested with `is None`, never by truthiness (index 0 is a frame)", floor=5)
    ctx.rule("R-16.6", "positional role agreement in velocity regeneration: (dek, kin_new), (vel, sigma_v), (xyz, vel, box, names) and writer arguments sit where the callee returns / expects them", floor=8)
    ctx.rule("R-16.11", "momentum reset: sum over particles of mass * velocity (product inside the reduction) divided by the total mass", floor=1)
    ctx.attempt(r1611, ctx)
    ctx.rule("R-16.12", "GROMACS-generated velocities use the engine's current temperature: the re-used genvel input (content depends on self.temperature) lives in the per-job scratch directory", floor=1)
    ctx.attempt(r1612, ctx)
    ctx.rule("R-16.14", "the shooting frame is dumped into a fresh file: a flag literal passed positionally to a writer lands on its flag parameter (append), not on `step` (shared with C19 R-19.13); today every such flag is passed by keyword - the positive control exercises the rule", floor=0)
    from .shared import positional_literal_kind
    ctx.attempt(positional_literal_kind, ctx, "R-16.14", [CP2K, LAMMPS, GROMACS, ENGBASE, "infretis/classes/engines/engineparts.py", ASE, TURTLE], ": the dumped shooting frame is appended to the file of an earlier regeneration, and the regeneration reads back the first snapshot - positions of an earlier shooting point")
    ctx.rule("R-16.10", "the kinetic energies whose difference is reported are computed by the same expression before and after the regeneration (same unit, same mass table)", floor=3)
    ctx.rule("R-16.9", "a callee handed an ensemble dictionary looks up only keys that record has (velocity settings such as zero_momentum live in its tis_set; a .get() on the ensemble itself silently yields the default)", floor=8)
    from .shared import ensemble_record_agreement
    ctx.attempt(ensemble_record_agreement, ctx, "R-16.9", [TIS], None, ": zero_momentum = true is ignored by engines whose default is false (net momentum kept), zero_momentum = false by those whose default is true")
    impls = implementations(ctx.tree)
    ctx.rule("R-16.15", "the box of the regenerated GROMACS / CP2K shooting point is the box of the frame: the flattened box matrix has the element order of the g96 BOX record (shared with C19 R-19.6)", floor=1)
    from . import c19 as _c19o
    from .shared import RuleProxy as _RP16o
    ctx.attempt(_c19o.r196, _RP16o(ctx, "R-16.15", " - dump_frame -> _extract_frame writes conf.g96 through this helper and modify_velocities carries that BOX block into genvel.g96: velocity regeneration changes the (triclinic) box of the shooting point"))
    ctx.rule("R-16.13", "velocity regeneration only reads the settings table it is handed (the ensemble's shared tis_set): no pop / delete / item store on it in any modify_velocities", floor=4)
    ctx.attempt(r1613, ctx, impls)
    armed = 0
    for m, cname, f in impls:
        if m.rel == AMS:
            ctx.note(f"{cname} parsed; not armed (draws happen in the external AMS worker)")
            continue
        wcalls = [c for c in walk_local(f) if isinstance(c, ast.Call) and last_name(c) in WRITERS]
        if m.rel == ASE:
            ctx.attempt(ase_engine, ctx, m, cname, f)
            armed += 1
        elif wcalls:
            ctx.attempt(array_engine, ctx, m, cname, f, wcalls)
            armed += 1
            if m.rel == GROMACS:
                ctx.attempt(external_gromacs, ctx, m, cname, f)
        else:
            ctx.bad("R-16.1", f, f"{cname}.modify_velocities has no recognised writer call")
    if armed < 5:
        raise AnalysisError(f"C16: only {armed} modify_velocities implementations found (expected 5)")
    ctx.attempt(r16_caller, ctx)
    ctx.attempt(r168, ctx, impls)
    from .shared import role_agreement, frame_index_truthiness
    ctx.attempt(frame_index_truthiness, ctx, "R-16.7", [GROMACS, CP2K, LAMMPS, TURTLE, ASE, ENGBASE], " (the whole multi-frame file is dumped instead of frame 0: velocities are regenerated for another frame)")
    P16 = ("modify_velocities", "draw_maxwellian_velocities", "_prepare_shooting_point", "kinetic_energy", "reset_momentum", "prepare_shooting_point")
    ctx.attempt(role_agreement, ctx, "R-16.6", [GROMACS, CP2K, LAMMPS, TURTLE, ASE, ENGBASE, TIS], lambda q, f: f.name in P16, " (velocity regeneration would write / report the wrong quantity)")
    from . import c07
    from .shared import RuleProxy
    px = RuleProxy(ctx, "R-16.5", " (velocity regeneration is then not reproducible from the job's random stream)")
    ctx.attempt(c07.r74, px)
    ctx.attempt(c07.r75, px)


VARIANTS = [
    B("c16-gromacs-velocity-section-tested-by-key", GROMACS, "            if not txt[\"VELOCITY\"]:", "            if \"VELOCITY\" not in txt:", "R-16.16", control=True, why="seeded C16_p"),
    K("c16-keep-gromacs-velocity-section-tested-by-length", GROMACS, "            if not txt[\"VELOCITY\"]:", "            if len(txt[\"VELOCITY\"]) == 0:"),
    B("c16-box-matrix-flattened-transposed", "infretis/classes/engines/engineparts.py", "            matrix[0, 1],\n            matrix[0, 2],\n            matrix[1, 0],\n            matrix[1, 2],\n            matrix[2, 0],\n            matrix[2, 1],\n", "            matrix[1, 0],\n            matrix[2, 0],\n            matrix[0, 1],\n            matrix[2, 1],\n            matrix[0, 2],\n            matrix[1, 2],\n", "R-16.15", control=True, why="seeded C16_o"),
    B("c16-lammps-positions-through-the-shifting-reader", LAMMPS, "        id_type, xyz, vel, box = read_lammpstrj(pos, 0, self.n_atoms)\n        kin_old", "        id_type, _, _, box = read_lammpstrj(pos, 0, self.n_atoms)\n        xyz, vel, _, _ = self._read_configuration(pos)\n        kin_old", "R-16.1", control=True, why="seeded C16_n"),
    K("c16-keep-lammps-frame-read-into-a-tuple", LAMMPS, "        id_type, xyz, vel, box = read_lammpstrj(pos, 0, self.n_atoms)\n        kin_old", "        frame = read_lammpstrj(pos, 0, self.n_atoms)\n        id_type, xyz, vel, box = frame\n        kin_old"),
    B("c16-cp2k-extract-appends", CP2K, "                write_xyz_trajectory(\n                    out_file, xyz, vel, names, box, append=False\n                )", "                write_xyz_trajectory(out_file, xyz, vel, names, box, False)", "R-16.14", control=True, why="seeded C16_m (= C19_i)"),
    B("c16-lammps-pops-zero-momentum", LAMMPS, 'vel_settings.get("zero_momentum", False)', 'vel_settings.pop("zero_momentum", False)', "R-16.13", control=True, why="seeded C16_l"),
    B("c16-genvel-input-cached-in-input-dir", GROMACS, '        gen_mdp = os.path.join(self.exe_dir, "genvel.mdp")', '        gen_mdp = os.path.join(self.input_path, "genvel.mdp")', "R-16.12", control=True, why="seeded C16_k"),
    B("c16-sigma-reciprocal-of-integer-masses", ENGBASE, "            sigma_v = np.sqrt(kbt * (1 / mass))", "            sigma_v = np.sqrt(kbt * np.reciprocal(mass))", "R-16.8", control=True, why="seeded C16_j"),
    K("c16-keep-sigma-reciprocal-of-float-masses", ENGBASE, "            sigma_v = np.sqrt(kbt * (1 / mass))", "            sigma_v = np.sqrt(kbt * np.reciprocal(mass.astype(float)))"),
    K("c16-keep-sigma-quotient", ENGBASE, "            sigma_v = np.sqrt(kbt * (1 / mass))", "            sigma_v = np.sqrt(kbt / mass)"),
    B("c16-momentum-mass-outside-sum", CP2K, "    mom = np.sum(vel * mass, axis=0)", "    mom = mass * np.sum(vel, axis=0)", "R-16.11", control=True, why="seeded C16_i"),
    K("c16-keep-momentum-product-reordered", CP2K, "    mom = np.sum(vel * mass, axis=0)", "    mom = np.sum(mass * vel, axis=0)"),
    B("c16-lammps-new-kinetic-energy-rescaled", LAMMPS, "        kin_new = kinetic_energy(vel, mass)[0]\n        system.config = (conf_out, 0)", "        kin_new = kinetic_energy(vel, mass)[0] * scale**2\n        system.config = (conf_out, 0)", "R-16.10", control=True, why="seeded C16_h"),
    B("c16-lammps-reset-result-discarded", LAMMPS, "        if vel_settings.get(\"zero_momentum\", False):\n            vel = reset_momentum(vel, mass)\n\n        conf_out = os.path.join(self.exe_dir, f\"genvel.{self.ext}\")\n        write_lammpstrj", "        if vel_settings.get(\"zero_momentum\", False):\n            reset_momentum(vel, mass)\n\n        conf_out = os.path.join(self.exe_dir, f\"genvel.{self.ext}\")\n        write_lammpstrj", "R-16.3",
      also=[(CP2K, "    mom = np.sum(vel * mass, axis=0)\n    vel -= mom / mass.sum()\n    return vel", "    vel_com = np.sum(vel * mass, axis=0) / mass.sum()\n    return vel - vel_com")], why="seeded C16_g (two sites)"),
    K("c16-keep-lammps-reset-in-place-call", LAMMPS, "        if vel_settings.get(\"zero_momentum\", False):\n            vel = reset_momentum(vel, mass)\n\n        conf_out = os.path.join(self.exe_dir, f\"genvel.{self.ext}\")\n        write_lammpstrj", "        if vel_settings.get(\"zero_momentum\", False):\n            reset_momentum(vel, mass)\n\n        conf_out = os.path.join(self.exe_dir, f\"genvel.{self.ext}\")\n        write_lammpstrj", why="with the in-place helper of today the bare call is enough"),
    K("c16-keep-pure-reset-helper", CP2K, "    mom = np.sum(vel * mass, axis=0)\n    vel -= mom / mass.sum()\n    return vel", "    vel_com = np.sum(vel * mass, axis=0) / mass.sum()\n    return vel - vel_com", why="all callers bind the result"),
    B("c16-velocity-settings-from-ensemble", TIS, '    dek, _ = engine.modify_velocities(shpt_copy, ens_set["tis_set"])', '    dek, _ = engine.modify_velocities(shpt_copy, ens_set)', "R-16.9", control=True, why="seeded C16_f"),
    B("c16-ase-genvel-settings-cached", ASE, "        self.kb = 8.61733326e-5  # eV/K", "        self.genvel_settings = {\"temperature_K\": self.temperature, \"rng\": getattr(self, \"rgen\", None)}\n        self.kb = 8.61733326e-5  # eV/K", "R-16.5", control=True, why="seeded C16_d",
      also=[(ASE, "        MaxwellBoltzmannDistribution(\n            atoms,\n            temperature_K=self.temperature,\n            rng=getattr(self, \"rgen\", None),\n        )", "        MaxwellBoltzmannDistribution(atoms, **self.genvel_settings)")]),
    B("c16-sigma-times-mass", ENGBASE, "            sigma_v = np.sqrt(kbt * (1 / mass))", "            sigma_v = np.sqrt(kbt * mass)", "R-16.8", control=True),
    B("c16-sigma-without-sqrt-argument-inverse", ENGBASE, "            kbt = 1.0 / beta\n", "            kbt = beta\n", "R-16.8"),
    B("c16-draw-variance-as-scale", ENGBASE, "vel = self.rgen.normal(loc=0.0, scale=sigma_v, size=(npart, dim))", "vel = self.rgen.normal(loc=0.0, scale=sigma_v**2, size=(npart, dim))", "R-16.8"),
    B("c16-draw-nonzero-mean", ENGBASE, "vel = self.rgen.normal(loc=0.0, scale=sigma_v, size=(npart, dim))", "vel = self.rgen.normal(loc=sigma_v, scale=sigma_v, size=(npart, dim))", "R-16.8"),
    B("c16-lammps-beta-precedence", LAMMPS, "        self._beta = 1 / (self.kb * self.temperature)", "        self._beta = 1 / self.kb * self.temperature", "R-16.8"),
    B("c16-gromacs-kb-decimal-slip", GROMACS, "        self.kb = 0.0083144621  # kJ/(K*mol)", "        self.kb = 0.083144621  # kJ/(K*mol)", "R-16.8"),
    B("c16-lammps-scale-multiplied", LAMMPS, "        vel /= scale\n", "        vel *= scale\n", "R-16.8"),
    B("c16-lammps-scale-dropped", LAMMPS, "        vel /= scale\n", "", "R-16.8"),
    B("c16-cp2k-extra-scaling", CP2K, "        vel, _ = self.draw_maxwellian_velocities(vel, mass, beta)\n", "        vel, _ = self.draw_maxwellian_velocities(vel, mass, beta)\n        vel *= 0.5\n", "R-16.8"),
    B("c16-turtle-inverse-beta", TURTLE, "        vel, _ = self.draw_maxwellian_velocities(vel, mass, beta)\n", "        vel, _ = self.draw_maxwellian_velocities(vel, mass, 1 / beta)\n", "R-16.8"),
    K("c16-keep-sigma-single-quotient", ENGBASE, "            sigma_v = np.sqrt(kbt * (1 / mass))", "            sigma_v = np.sqrt(1.0 / (beta * mass))"),
    K("c16-keep-lammps-scale-assign", LAMMPS, "        vel /= scale\n", "        vel = vel / scale\n"),
    K("c16-keep-lammps-beta-two-quotients", LAMMPS, "        self._beta = 1 / (self.kb * self.temperature)", "        self._beta = 1.0 / self.kb / self.temperature"),
    K("c16-keep-gromacs-kb-more-digits", GROMACS, "        self.kb = 0.0083144621  # kJ/(K*mol)", "        self.kb = 0.00831446262  # kJ/(K*mol)"),
    B("c16-dump-config-idx-truthiness", ENGBASE, "        if idx is None:\n            if pos_file != out_file:\n                self._copyfile(pos_file, out_file)\n        else:\n            logger.debug(\"Config: %s\", (config,))\n            self._extract_frame(pos_file, idx, out_file)\n", "        if idx:\n            logger.debug(\"Config: %s\", (config,))\n            self._extract_frame(pos_file, idx, out_file)\n        elif pos_file != out_file:\n            self._copyfile(pos_file, out_file)\n", "R-16.7", control=True, why="seeded C16_c"),
    K("c16-keep-dump-config-reordered", ENGBASE, "        if idx is None:\n            if pos_file != out_file:\n                self._copyfile(pos_file, out_file)\n        else:\n            logger.debug(\"Config: %s\", (config,))\n            self._extract_frame(pos_file, idx, out_file)\n", "        if idx is not None:\n            logger.debug(\"Config: %s\", (config,))\n            self._extract_frame(pos_file, idx, out_file)\n        elif pos_file != out_file:\n            self._copyfile(pos_file, out_file)\n"),
    B("c16-lammps-writer-args-swapped", LAMMPS, "        write_lammpstrj(conf_out, id_type, xyz, vel, box)", "        write_lammpstrj(conf_out, id_type, vel, xyz, box)", "R-16.6", control=True),
    B("c16-tis-dek-kin-swapped", TIS, "    dek, _ = engine.modify_velocities(shpt_copy, ens_set[\"tis_set\"])", "    _, dek = engine.modify_velocities(shpt_copy, ens_set[\"tis_set\"])", "R-16.6"),
    B("c16-cp2k-kinetic-args-swapped", CP2K, "        kin_new = kinetic_energy(vel, mass)[0]", "        kin_new = kinetic_energy(mass, vel)[0]", "R-16.6"),
    K("c16-keep-writer-kwargs", LAMMPS, "        write_lammpstrj(conf_out, id_type, xyz, vel, box)", "        write_lammpstrj(conf_out, id_type, xyz, vel=vel, box=box)"),
    B("c16-cp2k-positions-scaled", CP2K, "        write_xyz_trajectory(conf_out, xyz, vel, atoms, box, append=False)\n        kin_new", "        write_xyz_trajectory(conf_out, xyz * 1.0001, vel, atoms, box, append=False)\n        kin_new", "R-16.1", control=True),
    B("c16-lammps-positions-shifted", LAMMPS, "        conf_out = os.path.join(self.exe_dir, f\"genvel.{self.ext}\")\n        write_lammpstrj(conf_out, id_type, xyz, vel, box)", "        conf_out = os.path.join(self.exe_dir, f\"genvel.{self.ext}\")\n        xyz -= box[:, 0]\n        write_lammpstrj(conf_out, id_type, xyz, vel, box)", "R-16.1"),
    B("c16-gromacs-velocities-as-positions", GROMACS, "            write_gromos96_file(conf_out, txt, xyz, vel)", "            write_gromos96_file(conf_out, txt, vel, vel)", "R-16.1"),
    B("c16-turtle-velocities-kept", TURTLE, "        vel, _ = self.draw_maxwellian_velocities(vel, mass, beta)\n        # we do not reset momentum by default", "        # we do not reset momentum by default", "R-16.1"),
    B("c16-turtle-box-replaced", TURTLE, "        write_xyz_trajectory(conf_out, xyz, vel, atoms, box, append=False)\n        kin_new", "        box = self.box.length\n        write_xyz_trajectory(conf_out, xyz, vel, atoms, box, append=False)\n        kin_new", "R-16.1"),
    B("c16-ase-positions-rattled", ASE, "        kin_old = atoms.get_kinetic_energy()\n", "        kin_old = atoms.get_kinetic_energy()\n        atoms.rattle(1e-6)\n", "R-16.1"),
    B("c16-lammps-overwrites-source", LAMMPS, "        conf_out = os.path.join(self.exe_dir, f\"genvel.{self.ext}\")\n        write_lammpstrj(conf_out, id_type, xyz, vel, box)", "        conf_out = pos\n        write_lammpstrj(conf_out, id_type, xyz, vel, box)", "R-16.2", control=True),
    B("c16-cp2k-config-not-repointed", CP2K, "        kin_new = kinetic_energy(vel, mass)[0]\n        system.config = (conf_out, 0)\n        system.ekin = kin_new\n        if kin_old == 0.0:\n            dek = float(\"inf\")\n            logger.debug(\n                \"Kinetic energy not found for previous point.\"\n                \"\\n(This happens when the initial configuration \"\n                \"does not contain energies.)\"\n            )\n        else:\n            dek = kin_new - kin_old\n        return dek, kin_new\n", "        kin_new = kinetic_energy(vel, mass)[0]\n        system.ekin = kin_new\n        if kin_old == 0.0:\n            dek = float(\"inf\")\n        else:\n            dek = kin_new - kin_old\n        return dek, kin_new\n", "R-16.2"),
    B("c16-caller-passes-path-frame", TIS, "    shpt_copy = shooting_point.copy()\n    logger.info(\"Shooting from order", "    shpt_copy = shooting_point\n    logger.info(\"Shooting from order", "R-16.2"),
    B("c16-turtle-no-momentum-reset", TURTLE, "        if vel_settings.get(\"zero_momentum\", False):\n            vel = reset_momentum(vel, mass)\n\n        conf_out = os.path.join(self.exe_dir, f\"genvel.{self.ext}\")\n        write_xyz_trajectory", "        conf_out = os.path.join(self.exe_dir, f\"genvel.{self.ext}\")\n        write_xyz_trajectory", "R-16.3", control=True),
    B("c16-ase-reset-disabled", ASE, "        if vel_settings.get(\"zero_momentum\", False):\n            # TODO: should we preserve", "        if False:\n            # TODO: should we preserve", "R-16.3"),
    B("c16-gromacs-external-ignores-false", GROMACS, "                raise ValueError(msg)\n            posvel, energy = self._prepare_shooting_point(pos)", "                logger.warning(msg)\n            posvel, energy = self._prepare_shooting_point(pos)", "R-16.3"),
    B("c16-ase-ekin-before-stationary", ASE, "        if vel_settings.get(\"zero_momentum\", False):\n            # TODO: should we preserve temperature or not?\n            # The other engines do not bother to preserve the temperature\n            Stationary(atoms, preserve_temperature=False)\n        kin_new = atoms.get_kinetic_energy()\n", "        kin_new = atoms.get_kinetic_energy()\n        if vel_settings.get(\"zero_momentum\", False):\n            # TODO: should we preserve temperature or not?\n            # The other engines do not bother to preserve the temperature\n            Stationary(atoms, preserve_temperature=False)\n", "R-16.4", control=True, why="pre-fix D8"),
    B("c16-lammps-ekin-before-unit-scaling", LAMMPS, "        vel, _ = self.draw_maxwellian_velocities(vel, mass, self.beta)\n        # convert to correct units\n        vel /= scale", "        vel, _ = self.draw_maxwellian_velocities(vel, mass, self.beta)\n        kin_new = kinetic_energy(vel, mass)[0]\n        # convert to correct units\n        vel /= scale", "R-16.4",
      also=[(LAMMPS, "        write_lammpstrj(conf_out, id_type, xyz, vel, box)\n        kin_new = kinetic_energy(vel, mass)[0]\n", "        write_lammpstrj(conf_out, id_type, xyz, vel, box)\n")]),
    B("c16-turtle-ekin-not-stored", TURTLE, "        system.config = (conf_out, 0)\n        system.ekin = kin_new\n        if kin_old == 0.0:\n            dek = float(\"inf\")\n            logger.debug(\n                \"Kinetic energy not found for previous point.\"\n                \"\\n(This happens when the initial configuration \"\n                \"does not contain energies.)\"\n            )\n        else:\n            dek = kin_new - kin_old\n        return dek, kin_new\n", "        system.config = (conf_out, 0)\n        system.ekin = kin_old\n        if kin_old == 0.0:\n            dek = float(\"inf\")\n        else:\n            dek = kin_new - kin_old\n        return dek, kin_new\n", "R-16.4"),
    K("c16-keep-lammps-scale-assign", LAMMPS, "        vel /= scale\n", "        vel = vel / scale\n"),
    K("c16-keep-turtle-ekin-before-write", TURTLE, "        write_xyz_trajectory(conf_out, xyz, vel, atoms, box, append=False)\n        kin_new = kinetic_energy(vel, mass)[0]\n", "        kin_new = kinetic_energy(vel, mass)[0]\n        write_xyz_trajectory(conf_out, xyz, vel, atoms, box, append=False)\n"),
    K("c16-keep-ase-outfile-local", ASE, "        conf_out = os.path.join(self.exe_dir, \"genvel.traj\")\n        atoms.write(conf_out)", "        out_dir = self.exe_dir\n        conf_out = os.path.join(out_dir, \"genvel.traj\")\n        atoms.write(conf_out)"),
    K("c16-keep-cp2k-keyword-args", CP2K, "        write_xyz_trajectory(conf_out, xyz, vel, atoms, box, append=False)\n        kin_new", "        write_xyz_trajectory(conf_out, xyz, vel, names=atoms, box=box, append=False)\n        kin_new"),
]
