"""C20 - order parameters respect the symmetries of what they measure.

Decides purity (computing an order parameter does not modify the system,
under NumPy view/copy semantics), box-form normalisation before the PBC
helper, and that velocity dependence is declared.
"""

from __future__ import annotations

import ast

from ..cfg import cfg_of
from ..flow import deref, flow_of, path_of
from ..loader import FUNC, AnalysisError, dotted, enclosing_stmt, last_name, loc, short, walk_local
from ..util import ENGBASE, ORDERP, PATH, kwarg
from ..variants import B, K

EXPLANATION = (
    "For every OrderParameter subclass with a calculate() in the repository "
    "(Distance, Distancevel, Position, Velocity, Dihedral, Puckering): "
    "(R-20.1) calculate never stores to an attribute of the system and never "
    "applies an in-place operation (augmented assignment, item/slice store, "
    "sort/fill, out=) to an array that may alias system.pos/vel/box - aliasing "
    "follows NumPy semantics from a view/copy table (attribute read and "
    "integer/slice index give views; arithmetic, np.array, np.cross, "
    "list/array index and allocating helpers give fresh arrays); "
    "EngineBase.calculate_order assigns system.pos/vel/box (documented) but "
    "never mutates the arrays it is given; (R-20.2) every box handed to "
    "pbc_dist_coordinate derives from a [:3] restriction of system.box so the "
    "3- and 9-component forms are both accepted; (R-20.3) a calculate that "
    "reads system.vel belongs to a class declared velocity dependent and vice "
    "versa, and Path.reverse recomputes orders exactly for velocity-dependent "
    "parameters. (R-20.7) the minimum-image helper w(d, L) is translated into a "
    "polynomial over d, L, 1/L and rounding-function atoms; w(d + k*L) - w(d) "
    "reduces to 0 for a symbolic integer k with the rules L*(1/L) = 1 and "
    "R(x + k) = R(x) + k for R in rint/round/floor/ceil, the unwrapped branch is "
    "the restriction of the same function to |d| <= L/2 (the rounding term "
    "vanishes there), and an expression whose asymptotic slope in d is not 0 is "
    "refuted (a bounded correction cannot make d periodic). With R-20.2 and R-20.4 "
    "(the helper receives box[:3] and the raw difference of two positions) this "
    "gives invariance of the periodic parameters under shifting any atom by a box "
    "vector. (R-20.8) calculate() of Distance, Distancevel, Dihedral and Puckering is "
    "interpreted abstractly over geometric types - vector with translation weight "
    "w (position 1, difference 0, velocity 0, mean of n positions = mean of their "
    "weights), invariant scalar, scalar array, Cartesian component - with constant "
    "range loops unrolled and both arms of every if explored: every returned value is "
    "a scalar obtained through scalar/cross products and norms of weight-0 vectors, "
    "so the value is unchanged by a rigid translation and by a rotation of all atoms."
)
NOT_DECIDED = (
    "the half-box bound of the minimum-image distance as a numerical statement; rotation "
    "invariance of the *periodic* variants is decided treating the orthorhombic wrap as "
    "covariant (it is exact only while no wrap is active); sign change of velocity-type "
    "parameters under velocity reversal is decided structurally (R-20.3, R-20.5), not numerically; "
    "plug-in order parameters"
)
ASSUMPTIONS = [
    "NumPy: basic (integer/slice) indexing returns views, advanced (list/array) indexing and arithmetic return copies",
    "pbc_dist_coordinate allocates its result (np.zeros) - checked by R-20.1 on the helper itself",
    "plug-in order parameters are outside the repository and outside the claim",
]

FRESH_CALLS = {"array", "zeros", "ones", "empty", "cross", "dot", "mean", "sqrt", "sum", "copy", "norm", "arctan2", "rad2deg", "abs", "rint",
               "pbc_dist_coordinate", "sin", "cos", "zeros_like", "outer", "einsum", "list", "tuple", "float", "int", "deepcopy"}
VIEW_CALLS = {"asarray", "reshape", "ravel", "view", "transpose", "squeeze", "atleast_1d", "atleast_2d", "swapaxes", "diagonal", "flatten_view"}
SYS_ARRAYS = ("pos", "vel", "box")


def op_classes(tree):
    out = []
    for m, name, c in tree.subclasses("OrderParameter"):
        if m.rel != ORDERP:
            continue
        calc = [s for s in c.body if isinstance(s, FUNC) and s.name == "calculate"]
        if calc:
            out.append((m, name, c, calc[0]))
    return out


class _Alias:
    """VIEW / FRESH classification of local names, flow-insensitive (any VIEW def wins)."""

    def __init__(self, f, roots):
        self.f = f
        self.roots = roots  # parameter names whose arrays must not be changed
        self.kind = {}
        self._solve()

    def expr(self, e):
        if isinstance(e, ast.Attribute):
            if isinstance(e.value, ast.Name) and e.value.id in self.roots and e.attr in SYS_ARRAYS + ("T",):
                return "VIEW"
            if e.attr == "T":
                return self.expr(e.value)
            return "FRESH" if not (isinstance(e.value, ast.Name) and e.value.id in self.roots) else "VIEW"
        if isinstance(e, ast.Name):
            if e.id in self.roots_arrays():
                return "VIEW"
            return self.kind.get(e.id, "FRESH")
        if isinstance(e, ast.Subscript):
            base = self.expr(e.value)
            if base != "VIEW":
                return "FRESH"
            return "VIEW" if self._basic_index(e.slice) else "FRESH"
        if isinstance(e, ast.Call):
            ln = last_name(e)
            if ln in VIEW_CALLS:
                args = list(e.args) + ([e.func.value] if isinstance(e.func, ast.Attribute) else [])
                return "VIEW" if any(self.expr(a) == "VIEW" for a in args) else "FRESH"
            return "FRESH"
        if isinstance(e, ast.IfExp):
            return "VIEW" if "VIEW" in (self.expr(e.body), self.expr(e.orelse)) else "FRESH"
        if isinstance(e, ast.Starred):
            return self.expr(e.value)
        return "FRESH"

    def roots_arrays(self):
        return getattr(self, "_array_params", set())

    def _basic_index(self, s):
        if isinstance(s, ast.Slice):
            return True
        if isinstance(s, ast.Constant) and isinstance(s.value, int):
            return True
        if isinstance(s, ast.UnaryOp) and isinstance(s.operand, ast.Constant):
            return True
        if isinstance(s, ast.Tuple):
            return all(self._basic_index(x) for x in s.elts)
        if isinstance(s, (ast.List, ast.ListComp)):
            return False
        if isinstance(s, ast.Call) and last_name(s) in ("list", "array", "tuple", "arange", "nonzero", "where"):
            return False
        if isinstance(s, ast.Name):
            # a name bound to a list/array selects by advanced indexing; loop counters are ints
            k = self.index_names.get(s.id)
            return k != "seq"
        if isinstance(s, ast.Attribute) or isinstance(s, ast.Subscript):
            # self.index[0] -> an int; self.index -> a tuple of ints = advanced only if list/array
            return True
        return True

    def _solve(self):
        self.index_names = {}
        for n in walk_local(self.f):
            if isinstance(n, ast.Assign) and len(n.targets) == 1 and isinstance(n.targets[0], ast.Name):
                v = n.value
                if isinstance(v, (ast.List, ast.ListComp)) or (isinstance(v, ast.Call) and last_name(v) in ("list", "array", "arange")):
                    self.index_names[n.targets[0].id] = "seq"
        changed = True
        it = 0
        while changed and it < 10:
            changed = False
            it += 1
            for n in walk_local(self.f):
                tgts, v = [], None
                if isinstance(n, ast.Assign):
                    tgts, v = n.targets, n.value
                elif isinstance(n, ast.AnnAssign) and n.value is not None:
                    tgts, v = [n.target], n.value
                elif isinstance(n, (ast.For, ast.AsyncFor)):
                    # iterating a VIEW yields views of its rows
                    tgts, v = [n.target], n.iter
                for t in tgts:
                    if isinstance(t, ast.Name):
                        k = self.expr(v)
                        if k == "VIEW" and self.kind.get(t.id) != "VIEW":
                            self.kind[t.id] = "VIEW"
                            changed = True
                    elif isinstance(t, ast.Tuple) and isinstance(v, ast.Tuple) and len(t.elts) == len(v.elts):
                        for tt, vv in zip(t.elts, v.elts):
                            if isinstance(tt, ast.Name) and self.expr(vv) == "VIEW" and self.kind.get(tt.id) != "VIEW":
                                self.kind[tt.id] = "VIEW"
                                changed = True


def purity(ctx, rid, f, cname, roots, array_params=()):
    al = _Alias(f, roots)
    al._array_params = set(array_params)
    al._solve()
    bad = False
    for n in walk_local(f):
        tgts = []
        if isinstance(n, ast.Assign):
            tgts = [(t, "store") for t in n.targets]
        elif isinstance(n, ast.AugAssign):
            tgts = [(n.target, "aug")]
        elif isinstance(n, ast.Delete):
            tgts = [(t, "del") for t in n.targets]
        for t, how in tgts:
            for tt in (t.elts if isinstance(t, ast.Tuple) else [t]):
                if isinstance(tt, ast.Attribute) and isinstance(tt.value, ast.Name) and tt.value.id in roots:
                    if rid == "R-20.1e" and tt.attr in SYS_ARRAYS and how == "store":
                        continue  # documented: calculate_order assigns system.pos/vel/box
                    ctx.bad("R-20.1", n, f"{cname}: attribute {tt.attr!r} of the system is assigned while computing an order parameter")
                    bad = True
                elif isinstance(tt, ast.Subscript) and al.expr(tt.value) == "VIEW":
                    ctx.bad("R-20.1", n, f"{cname}: element/slice store into an array that may alias the system's data ({short(tt.value, 40)} is a view): computing the order parameter modifies the system",
                            construct=short(n, 80))
                    bad = True
                elif how == "aug" and isinstance(tt, ast.Name) and (al.kind.get(tt.id) == "VIEW" or tt.id in al._array_params):
                    ctx.bad("R-20.1", n, f"{cname}: in-place operator on {tt.id!r}, which may alias the system's data (a view, not a copy)", construct=short(n, 80))
                    bad = True
                elif how == "aug" and isinstance(tt, ast.Attribute) and isinstance(tt.value, ast.Name) and tt.value.id in roots:
                    bad = True
        if isinstance(n, ast.Call):
            if isinstance(n.func, ast.Attribute) and n.func.attr in ("sort", "fill", "resize", "put", "itemset", "partition", "clip") and al.expr(n.func.value) == "VIEW":
                if n.func.attr == "clip" and not kwarg(n, "out"):
                    pass
                else:
                    ctx.bad("R-20.1", n, f"{cname}: in-place method {n.func.attr}() on an array that may alias the system's data")
                    bad = True
            o = kwarg(n, "out")
            if o is not None and al.expr(o) == "VIEW":
                ctx.bad("R-20.1", n, f"{cname}: out= targets an array that may alias the system's data")
                bad = True
            if dotted(n.func) in ("setattr",) and n.args and isinstance(n.args[0], ast.Name) and n.args[0].id in roots:
                ctx.bad("R-20.1", n, f"{cname}: setattr on the system while computing an order parameter")
                bad = True
    if not bad:
        views = sorted(k for k, v in al.kind.items() if v == "VIEW")
        ctx.ok("R-20.1", f, f"{cname}: no store/in-place operation on the system or on views of its arrays (views: {views or '-'})")


def r201(ctx, classes):
    for m, name, c, calc in classes:
        params = [a.arg for a in calc.args.args]
        sysname = params[1] if len(params) > 1 else "system"
        purity(ctx, "R-20.1", calc, f"{name}.calculate", {sysname})
    tree = ctx.tree
    co = tree.func(ENGBASE, "EngineBase.calculate_order")
    purity(ctx, "R-20.1e", co, "EngineBase.calculate_order", {"system"}, array_params=("xyz", "vel", "box"))
    helper = tree.func(ORDERP, "pbc_dist_coordinate")
    purity(ctx, "R-20.1", helper, "pbc_dist_coordinate", set(), array_params=("distance", "box_lengths"))
    # the helper returns a fresh array
    fresh = False
    for r in [n for n in walk_local(helper) if isinstance(n, ast.Return)]:
        fl = flow_of(helper)
        for kind, node, at, extra in fl.sources(r.value, fl.cfg.node_of(r)):
            if kind == "expr" and isinstance(node, ast.Call) and last_name(node) in ("zeros", "empty", "array", "copy", "zeros_like", "where"):
                fresh = True
            if kind == "expr" and isinstance(node, ast.BinOp):
                fresh = True  # array arithmetic allocates its result
    if fresh:
        ctx.ok("R-20.1", helper, "pbc_dist_coordinate returns a freshly allocated array")
    else:
        ctx.bad("R-20.1", helper, "pbc_dist_coordinate may return (a view of) its input: callers that normalise the result in place would modify the system")


_WRAPPERS = ("array", "asarray", "list", "tuple", "copy", "asfarray", "ascontiguousarray")


def _is_base(fl, e, at, base, depth=0):
    """Is `e` the box itself (the expression `base`, possibly re-bound through array constructors)?"""
    if depth > 6 or e is None:
        return False
    if ast.unparse(e).replace(" ", "") == base:
        return True
    if isinstance(e, ast.Call) and last_name(e) in _WRAPPERS and e.args:
        return _is_base(fl, e.args[0], at, base, depth + 1)
    if isinstance(e, ast.Name):
        srcs = fl.sources(e, at)
        return bool(srcs) and all((kind == "param" and extra == base) or (kind == "expr" and _is_base(fl, node, sat, base, depth + 1)) for kind, node, sat, extra in srcs)
    return False


def _from_box3(m, fl, e, at, base, depth=0):
    """Does `e` derive, on every path, from the first three components of the box `base`?
    Looks through array constructors, locals and - one level - through a helper function of the
    same module whose every return derives from its parameter's [:3]."""
    if depth > 6 or e is None:
        return False, "?"
    if isinstance(e, ast.Subscript) and isinstance(e.slice, ast.Slice) and e.slice.lower is None and e.slice.step is None \
            and isinstance(e.slice.upper, ast.Constant) and e.slice.upper.value == 3 and _is_base(fl, e.value, at, base):
        return True, ""
    if isinstance(e, ast.Call) and last_name(e) in _WRAPPERS and e.args:
        return _from_box3(m, fl, e.args[0], at, base, depth + 1)
    if isinstance(e, ast.Call) and isinstance(e.func, ast.Name) and e.func.id in m.funcs and len(e.args) == 1 and not e.keywords \
            and _is_base(fl, e.args[0], at, base):
        h = m.funcs[e.func.id]
        hp = [a.arg for a in h.args.args]
        if len(hp) >= 1:
            hfl = flow_of(h)
            rets = [r for r in walk_local(h) if isinstance(r, ast.Return)]
            if not rets:
                return False, f"{h.name}() returns nothing"
            for r in rets:
                ok, why = _from_box3(m, hfl, r.value, hfl.cfg.node_of(r), hp[0], depth + 1)
                if not ok:
                    return False, f"helper {h.name}() returns `{short(r.value, 40)}` on one path, which is not the first three components of the box it was given"
            return True, ""
    if isinstance(e, ast.Call) and isinstance(e.func, ast.Attribute) and isinstance(e.func.value, ast.Name) and e.func.value.id == "self" and len(e.args) == 1 and not e.keywords \
            and isinstance(e.args[0], ast.Name) and base == e.args[0].id + ".box":
        # a method of the order-parameter class that is handed the system:  self.helper(system)
        cands = [g for q, g in m.funcs.items() if q.endswith("." + e.func.attr)]
        if cands:
            for h in cands:
                hp = [a.arg for a in h.args.args]
                if len(hp) < 2:
                    return False, f"{h.name}() takes no system"
                hfl = flow_of(h)
                rets = [r for r in walk_local(h) if isinstance(r, ast.Return)]
                if not rets:
                    return False, f"{h.name}() returns nothing"
                for r in rets:
                    ok, why = _from_box3(m, hfl, r.value, hfl.cfg.node_of(r), hp[1] + ".box", depth + 1)
                    if not ok:
                        return False, f"method {h.name}() returns `{short(r.value, 40)}`, which is not (on every path) the first three components of the box of the system it is given now - e.g. a value kept from an earlier call"
            return True, ""
    if isinstance(e, ast.Name):
        srcs = fl.sources(e, at)
        if not srcs:
            return False, e.id
        for kind, node, sat, extra in srcs:
            if kind != "expr":
                return False, f"{kind} {extra}"
            r, w = _from_box3(m, fl, node, sat, base, depth + 1)
            if not r:
                return False, w
        return True, ""
    return False, ast.unparse(e).replace(" ", "")


def r202(ctx, classes):
    rid = "R-20.2"
    n = 0
    for m, name, c, calc in classes:
        fl = flow_of(calc)
        params = [a.arg for a in calc.args.args]
        sysname = params[1] if len(params) > 1 else "system"
        for call in [x for x in walk_local(calc) if isinstance(x, ast.Call) and last_name(x) == "pbc_dist_coordinate"]:
            n += 1
            b = kwarg(call, "box_lengths", 1)
            ok, why = _from_box3(m, fl, b, fl.cfg.node_of(call), sysname + ".box")
            if ok:
                ctx.ok(rid, call, f"{name}: the box handed to pbc_dist_coordinate is {sysname}.box[:3] (3- and 9-component forms give the same lengths)")
            else:
                ctx.bad(rid, call, f"{name}.calculate hands pbc_dist_coordinate box lengths that are not the first three components of the system box ({why}): the 3- and the 9-component form of the same box (GROMACS / CP2K produce the latter) do not give the same result",
                        construct=short(call, 70))
    if n < 4:
        raise AnalysisError(f"R-20.2: only {n} pbc_dist_coordinate call sites found")


def r204(ctx, classes):
    """The minimum-image wrap is applied to the raw difference of two positions."""
    rid = "R-20.4"
    n = 0
    for m, name, c, calc in classes:
        fl = flow_of(calc)
        cfg = fl.cfg
        for call in [x for x in walk_local(calc) if isinstance(x, ast.Call) and last_name(x) == "pbc_dist_coordinate"]:
            n += 1
            d = kwarg(call, "distance", 0)
            at = cfg.node_of(call)
            bad = None

            def raw_difference(e):
                return isinstance(e, ast.BinOp) and isinstance(e.op, ast.Sub) and all(
                    isinstance(x, ast.Subscript) and ("pos" in ast.unparse(x.value)) for x in (e.left, e.right))

            if raw_difference(d):
                pass
            elif path_of(d):
                def pos_read(x):
                    return isinstance(x, ast.Subscript) and "pos" in ast.unparse(x.value)
                for df, sfx in fl.rd(path_of(d), at):
                    if df.kind == "assign" and raw_difference(df.value):
                        continue
                    # copy of one position, then `-=` the other: the same raw difference
                    if df.kind == "aug" and isinstance(df.value.op, ast.Sub) and pos_read(df.value.value):
                        prev = fl.rd(df.path, df.at)
                        if prev and all(p.kind == "assign" and isinstance(p.value, ast.Call) and last_name(p.value) in ("array", "copy") and p.value.args and pos_read(p.value.args[0]) for p, _ in prev):
                            continue
                    bad = f"{short(df.stmt, 60) if df.stmt is not None else df.kind} reaches the wrap"
            else:
                bad = f"the wrapped expression is {short(d, 50)}"
            # the wrap is taken whenever the parameter is periodic and a box is known: it decides per axis
            # itself, so no other condition (a pre-test on the vector) may stand between the two
            for ge, gt, gbn in cfg.guards(at):
                gtxt = ast.unparse(ge)
                names = {x.attr for x in ast.walk(ge) if isinstance(x, ast.Attribute)} | {x.id for x in ast.walk(ge) if isinstance(x, ast.Name)}
                if names & {"periodic", "box"} and not any(isinstance(x, ast.Call) for x in ast.walk(ge)) and not (names - {"periodic", "box", "self", "system", "None"}):
                    continue
                dn = {x.id for x in ast.walk(d) if isinstance(x, ast.Name)} if d is not None else set()
                # exact per-axis pre-test: any(|d| > L/2) - false means no axis would be wrapped anyway
                if gt and isinstance(ge, ast.Call) and last_name(ge) == "any" and len(ge.args) == 1 and isinstance(ge.args[0], ast.Compare) and len(ge.args[0].ops) == 1 and isinstance(ge.args[0].ops[0], (ast.Gt, ast.Lt)):
                    l_, r_ = ge.args[0].left, ge.args[0].comparators[0]
                    if isinstance(ge.args[0].ops[0], ast.Lt):
                        l_, r_ = r_, l_
                    half = ast.unparse(r_).replace(" ", "")
                    bx = ast.unparse(kwarg(call, "box_lengths", 1)).replace(" ", "") if kwarg(call, "box_lengths", 1) is not None else "?"
                    if isinstance(l_, ast.Call) and last_name(l_) in ("abs", "absolute", "fabs") and l_.args and ast.unparse(l_.args[0]) == ast.unparse(d) and half in (f"0.5*{bx}", f"{bx}*0.5", f"{bx}/2", f"{bx}/2.0"):
                        continue
                if dn & names or any(isinstance(x, ast.Call) and any(isinstance(a_, ast.Name) and a_.id in dn for a_ in x.args) for x in ast.walk(ge)):
                    ctx.bad(rid, call, f"{name}.calculate takes the minimum-image wrap only when `{gtxt}` holds - a test on the pair vector as a whole: pbc_dist_coordinate wraps each axis whose own component exceeds half that axis' length, so a pre-test on the whole vector (its norm against the half diagonal, any(), a sum) skips pairs that straddle one box face - the value then depends on the image an atom is stored in and changes under a shift by a box vector",
                            construct=f"{name}: wrap behind a whole-vector pre-test")
                    bad = None
                    break
            if bad:
                ctx.bad(rid, call, f"{name}.calculate applies the periodic minimum-image wrap to a vector that is no longer the raw difference of two positions ({bad}): "
                        "a rescaled/normalised vector is never wrapped, so the value depends on which periodic image an atom is stored in", construct=short(call, 70))
            else:
                ctx.ok(rid, call, f"{name}: pbc_dist_coordinate is applied to the raw difference of two positions")
    if n < 4:
        raise AnalysisError(f"R-20.4: only {n} pbc_dist_coordinate call sites found")


def r205(ctx, rid="R-20.5"):
    """calculate_order applies the vel_rev negation to the velocities it finally uses:
    every definition of the velocity array (parameter, re-read from the file) reaches the
    store to system.vel only through a test of system.vel_rev that selects the negation."""
    tree = ctx.tree
    f = tree.func(ENGBASE, "EngineBase.calculate_order")
    fl = flow_of(f)
    cfg = fl.cfg
    stores = [d for d in fl.defs if d.path == "system.vel" and d.kind == "assign"]
    if not stores:
        ctx.bad(rid, f, "calculate_order never sets system.vel: velocity-dependent order parameters see stale velocities")
        return

    def negates(e):
        for x in ast.walk(e):
            if isinstance(x, ast.UnaryOp) and isinstance(x.op, ast.USub) and not isinstance(x.operand, ast.Constant):
                return True
            if isinstance(x, ast.BinOp) and isinstance(x.op, ast.Mult):
                for b in (x.left, x.right):
                    try:
                        if float(ast.literal_eval(b)) < 0:
                            return True
                    except Exception:
                        pass
        return False

    for S in stores:
        v = S.value
        vname = None
        for x in ast.walk(v):
            if isinstance(x, ast.Name) and x.id not in ("system",):
                vname = x.id
        # tests of vel_rev that select a negation
        sel_tests = set()
        if isinstance(v, ast.IfExp) and "vel_rev" in ast.unparse(v.test) and (negates(v.body) != negates(v.orelse)):
            sel_tests.add(S.at.id)
        for n in walk_local(f):
            if isinstance(n, ast.If) and "vel_rev" in ast.unparse(n.test):
                if any(isinstance(st, (ast.Assign, ast.AugAssign)) and negates(st.value if isinstance(st, ast.Assign) else st) or (isinstance(st, ast.AugAssign) and isinstance(st.op, ast.Mult)) for st in n.body):
                    sel_tests.add(cfg.node_of(n.test).id)
        if not sel_tests:
            ctx.bad(rid, S.stmt, "calculate_order stores velocities to system.vel without a vel_rev-conditional negation: velocity-type order parameters do not change sign under velocity reversal")
            continue
        raw = [d for d in fl.defs if d.path == vname and (d.kind == "param" or (d.kind == "assign" and not negates(d.value)))] if vname else []
        bad = None
        for d in raw:
            if d.at.id in sel_tests:
                continue
            r = cfg.reachable(d.at, avoid=[cfg.nodes[i] for i in sel_tests if i != S.at.id])
            if S.at.id in sel_tests:
                continue  # the store itself selects the sign from whatever reaches it
            if S.at.id in r:
                bad = d
        if bad is not None:
            ctx.bad(rid, S.stmt,
                    f"the velocities defined at line {bad.at.line} ({short(bad.stmt, 40) if bad.stmt is not None else 'parameter'}) reach system.vel without passing the vel_rev negation: "
                    "when the configuration is re-read from the file, a frame with vel_rev set gets un-negated velocities, so velocity-type order parameters do not change sign under reversal",
                    construct=short(S.stmt, 70))
        else:
            ctx.ok(rid, S.stmt, "every velocity array that reaches system.vel (parameter or re-read) passes the vel_rev-conditional negation")
        # the store (and with it the sign flip) happens whenever velocities are there: its only guards are None tests
        for e, truth, bn in cfg.guards(S.at):
            txt = ast.unparse(e)
            none_test = isinstance(e, ast.Compare) and len(e.ops) == 1 and isinstance(e.ops[0], (ast.Is, ast.IsNot)) and isinstance(e.comparators[0], ast.Constant) and e.comparators[0].value is None
            if none_test:
                continue
            if (vname and any(isinstance(x, ast.Name) and x.id == vname for x in ast.walk(e))) or "system.vel" in txt.replace("system.vel_rev", ""):
                ctx.bad(rid, S.stmt, f"the store to system.vel - and with it the vel_rev sign flip - is skipped when `{txt}` is {not truth}: for a caller that passes the system's own velocity array (GromacsEngine._propagate_from stores system.vel = data['v'] and passes it) velocity-type order parameters keep their sign under velocity reversal, and the result depends on whether the caller passes the array or an equal copy", construct=f"calculate_order: flip guarded by {txt}")


def r203(ctx, classes):
    rid = "R-20.3"
    tree = ctx.tree
    for m, name, c, calc in classes:
        params = [a.arg for a in calc.args.args]
        sysname = params[1] if len(params) > 1 else "system"
        reads_vel = any(isinstance(x, ast.Attribute) and x.attr == "vel" and isinstance(x.value, ast.Name) and x.value.id == sysname for x in walk_local(calc))
        init = [s for s in c.body if isinstance(s, FUNC) and s.name == "__init__"]
        declared = False
        if init:
            for call in [x for x in walk_local(init[0]) if isinstance(x, ast.Call) and isinstance(x.func, ast.Attribute) and x.func.attr == "__init__"]:
                v = kwarg(call, "velocity", 1)
                if isinstance(v, ast.Constant) and v.value is True:
                    declared = True
        if reads_vel == declared:
            ctx.ok(rid, calc, f"{name}: velocity dependence declared = {declared}, calculate reads system.vel = {reads_vel}")
        elif reads_vel:
            ctx.bad(rid, calc, f"{name}.calculate reads system.vel but the class is not declared velocity dependent: Path.reverse keeps the stale order, so the parameter does not change sign under velocity reversal")
        else:
            ctx.bad(rid, calc, f"{name} is declared velocity dependent but calculate never reads system.vel")
    rev = tree.func(PATH, "Path.reverse")
    cfg = cfg_of(rev)
    ok = False
    for call in [x for x in walk_local(rev) if isinstance(x, ast.Call) and isinstance(x.func, ast.Attribute) and x.func.attr == "calculate"]:
        g = [ast.unparse(e) for e, t, _ in cfg.guards(cfg.node_of(call)) if t]
        if any("velocity_dependent" in x for x in g) and any("rev_v" in x for x in g):
            ok = True
            ctx.ok(rid, call, "Path.reverse recomputes the order exactly when the parameter is velocity dependent and velocities were reversed")
    if not ok:
        ctx.bad(rid, rev, "Path.reverse does not recompute velocity-dependent order parameters after reversing velocities")


RELATIVE = ("Distance", "Distancevel", "Dihedral", "Puckering")


def r208(ctx, classes):
    """Translation / rotation invariance of the relative built-in order parameters by abstract
    interpretation of calculate() over geometric types (sa/geomtypes.py)."""
    from .. import geomtypes as G

    rid = "R-20.8"
    byname = {name: (c, calc) for _m, name, c, calc in classes}
    for name in RELATIVE:
        if name not in byname:
            raise AnalysisError(f"R-20.8: order parameter class {name} not found")
        c, calc = byname[name]
        # number of particles enforced by the constructor (len(index) != K -> raise)
        n = None
        init = next((s for s in c.body if isinstance(s, FUNC) and s.name == "__init__"), None)
        if init is not None:
            for cmp_ in [x for x in ast.walk(init) if isinstance(x, ast.Compare)]:
                if isinstance(cmp_.left, ast.Call) and last_name(cmp_.left) == "len" and len(cmp_.ops) == 1 and isinstance(cmp_.ops[0], ast.NotEq) and isinstance(cmp_.comparators[0], ast.Constant):
                    n = cmp_.comparators[0].value
        try:
            # helper methods of the class and of its bases in the module (handed the system)
            meths = {}
            modm = calc._mod
            for bq, bf in modm.funcs.items():
                if "." in bq and bf.name not in ("calculate", "__init__") and len(bf.args.args) == 2:
                    meths.setdefault(bf.name, bf)
            viols, npaths, nret = G.analyse_calculate(calc, n, meths)
        except G.Undecidable as exc:
            raise AnalysisError(f"R-20.8: {name}.calculate is outside the modelled fragment: {exc}")
        if viols:
            for node, msg in viols:
                ctx.bad(rid, node, f"{name}.calculate: {msg}", construct=f"{name}.calculate: {short(node, 70)}")
        else:
            ctx.ok(rid, calc, f"{name}.calculate: on all {npaths} path(s) every returned value ({nret}) is a scalar built from scalar/cross products and norms of vectors with translation weight 0 (differences of positions, velocities, positions re-centred on their mean)")
    for _m, name, c, calc in classes:
        if name not in RELATIVE:
            ctx.note(f"R-20.8: {name} is not a relative order parameter (not armed)")


def _rounding_vanishes(S, e, c):
    """Every rounding atom of e is 0 for |d| <= c*L (c <= 1/2): rint/round(q*d/L) with |q|*c <= 1/2,
    floor(q*d/L + 1/2), ceil(q*d/L - 1/2)."""
    from fractions import Fraction
    for m in e:
        for a, _ in m:
            if isinstance(a, tuple) and a[0] == "fn" and a[1] in S.EQUIVARIANT:
                arg = dict(a[3][0])
                lin = arg.pop((("d", 1), ("iL", 1)), None)
                off = arg.pop((), Fraction(0))
                if arg or lin is None:
                    return False
                want = {"floor": Fraction(1, 2), "ceil": Fraction(-1, 2)}.get(a[1], Fraction(0))
                if off != want or abs(lin) * c > Fraction(1, 2):
                    return False
    return True


class _WrongUnit(Exception):
    def __init__(self, test, power):
        super().__init__("guard bound has the wrong power of the box length")
        self.test, self.power = test, power


def r207(ctx):
    """The minimum-image helper is invariant under shifting the raw distance by any integer
    number of box lengths (symbolic: sa/symalg.py)."""
    from fractions import Fraction

    from .. import symalg as S

    rid = "R-20.7"
    f = ctx.tree.func(ORDERP, "pbc_dist_coordinate")
    params = [a.arg for a in f.args.args]
    if len(params) < 2:
        raise AnalysisError("R-20.7: pbc_dist_coordinate does not take (distance, box_lengths)")
    env = {params[0]: S.sym("d"), params[1]: S.sym("L")}
    tr = S.Translator(env)
    rets = [r for r in walk_local(f) if isinstance(r, ast.Return) and r.value is not None]
    if not rets:
        raise AnalysisError("R-20.7: pbc_dist_coordinate returns nothing")
    rnames = {r.value.id for r in rets if isinstance(r.value, ast.Name) and r.value.id not in params}
    if len(rnames) > 1:
        raise AnalysisError("R-20.7: pbc_dist_coordinate returns different result arrays (cannot decide)")
    result_name = next(iter(rnames)) if rnames else None

    def bind_loop(L):
        it = L.iter
        tgt = L.target
        if isinstance(it, ast.Call) and last_name(it) == "enumerate" and it.args and isinstance(tgt, ast.Tuple) and len(tgt.elts) == 2:
            it, tgt = it.args[0], tgt.elts[1]
        if isinstance(it, ast.Call) and last_name(it) == "zip" and isinstance(tgt, ast.Tuple) and len(tgt.elts) == len(it.args):
            for t_, a_ in zip(tgt.elts, it.args):
                if isinstance(t_, ast.Name):
                    try:
                        env[t_.id] = tr.tr(a_)
                    except S.Undecidable:
                        pass
            return
        if isinstance(tgt, ast.Name):
            try:
                env[tgt.id] = tr.tr(it)
            except S.Undecidable:
                pass  # an index over range(...): not a symbol

    stores = []  # (expr, node, [(test, truth)])

    def add_store(value, st, guards):
        if isinstance(value, ast.Call) and last_name(value) == "where" and len(value.args) == 3:
            add_store(value.args[1], st, guards + [(value.args[0], True)])
            add_store(value.args[2], st, guards + [(value.args[0], False)])
        else:
            stores.append((value, st, list(guards)))

    bexpr = {}

    def _bderef(t):
        n = 0
        while isinstance(t, ast.Name) and t.id in bexpr and n < 5:
            t, n = bexpr[t.id], n + 1
        return t

    def _always_returns(body):
        return bool(body) and isinstance(body[-1], (ast.Return, ast.Raise))

    def visit(stmts, guards):
        guards = list(guards)
        for st in stmts:
            if isinstance(st, ast.Assign) and len(st.targets) == 1:
                t_ = st.targets[0]
                if isinstance(t_, ast.Name) and t_.id != result_name:
                    if isinstance(st.value, (ast.Compare, ast.UnaryOp)) or (isinstance(st.value, ast.Call) and last_name(st.value) in ("any", "all")):
                        bexpr[t_.id] = st.value
                    try:
                        env[t_.id] = tr.tr(st.value)
                    except S.Undecidable:
                        pass
                    continue
                if (isinstance(t_, ast.Subscript) and isinstance(t_.value, ast.Name) and t_.value.id == result_name) or (isinstance(t_, ast.Name) and t_.id == result_name):
                    if isinstance(st.value, ast.Call) and last_name(st.value) in ("zeros", "empty", "zeros_like", "empty_like") :
                        continue  # allocation of the result
                    add_store(st.value, st, guards)
                    continue
            elif isinstance(st, (ast.For,)):
                bind_loop(st)
                visit(st.body, guards)
            elif isinstance(st, ast.If):
                visit(st.body, guards + [(st.test, True)])
                visit(st.orelse, guards + [(st.test, False)])
                # an early return: what follows runs only when the test had the other outcome
                if _always_returns(st.body) and not _always_returns(st.orelse):
                    guards.append((st.test, False))
                elif _always_returns(st.orelse) and not _always_returns(st.body):
                    guards.append((st.test, True))
            elif isinstance(st, ast.Return):
                if st.value is not None and not (isinstance(st.value, ast.Name) and st.value.id == result_name):
                    add_store(st.value, st, guards)
            elif isinstance(st, ast.Expr) and isinstance(st.value, ast.Constant):
                continue
            elif isinstance(st, (ast.AugAssign, ast.While, ast.With, ast.Try)):
                raise AnalysisError(f"R-20.7: statement form {type(st).__name__} in pbc_dist_coordinate not modelled")

    visit(f.body, [])
    if not stores:
        raise AnalysisError("R-20.7: no store to the wrapped distance found")

    def region(guards):
        """'far' (|d| > c L), 'near' (|d| <= c L) or 'all'; returns (kind, c)."""
        kind, cval = "all", None
        for test, truth in guards:
            test = _bderef(test)
            while isinstance(test, ast.UnaryOp) and isinstance(test.op, ast.Not):
                test, truth = _bderef(test.operand), not truth
            aggregate = None
            if isinstance(test, ast.Call) and last_name(test) in ("any", "all"):
                inner = test.args[0] if test.args else (test.func.value if isinstance(test.func, ast.Attribute) else None)
                if inner is None:
                    raise S.Undecidable("aggregate guard without operand")
                aggregate, test = last_name(test), _bderef(inner)
                while isinstance(test, ast.UnaryOp) and isinstance(test.op, (ast.Not, ast.Invert)):
                    # any(~c) = not all(c); all(~c) = not any(c)
                    test, truth, aggregate = test.operand, not truth, ("all" if aggregate == "any" else "any")
            if not (isinstance(test, ast.Compare) and len(test.ops) == 1):
                raise S.Undecidable("guard is not a single comparison")
            l, r, op = test.left, test.comparators[0], test.ops[0]
            if aggregate is not None:
                # normalise the element test to the form |d_i| > c L_i (far_i)
                if isinstance(op, (ast.Lt, ast.LtE)) and isinstance(l, ast.Call):
                    # |d| <= cL  is  not far
                    l, r, op = l, r, (ast.Gt() if isinstance(op, ast.LtE) else ast.GtE())
                    truth, aggregate = (not truth), ("all" if aggregate == "any" else "any")
                    # all(near) true  = any(far) false ; handled by the swap above
                test = ast.Compare(left=l, ops=[op], comparators=[r])
            if isinstance(op, (ast.Lt, ast.LtE)):
                l, r = r, l
                op = ast.Gt() if isinstance(op, ast.Lt) else ast.GtE()
            if not isinstance(op, (ast.Gt, ast.GtE)):
                raise S.Undecidable("guard comparator")
            if not (isinstance(l, ast.Call) and last_name(l) in ("abs", "fabs", "absolute") and S.key(tr.tr(l.args[0])) == S.key(S.sym("d"))):
                raise S.Undecidable("guard does not test |distance|")
            rp = tr.tr(r)
            cl = S.as_L_power(rp)
            if cl is not None and cl[1] != 1:
                raise _WrongUnit(test, cl[1])
            if cl is None and len(rp) == 1:
                (m_, c_), = rp.items()
                if m_ and all(a_ in ("iL", "L") for a_, _ in m_):
                    raise _WrongUnit(test, sum(pw_ if a_ == "L" else -pw_ for a_, pw_ in m_))
            if cl is None or cl[1] != 1 or cl[0] <= 0:
                raise S.Undecidable("guard bound is not c*L")
            if aggregate == "any":
                # any(far_i) false: every axis is near; true: nothing is known about a given axis
                if not truth:
                    kind, cval = "near", cl[0]
                else:
                    unguarded_c.append(cl[0])
            elif aggregate == "all":
                # all(far_i) true: every axis is far; false: nothing is known about a given axis
                if truth:
                    kind, cval = "far", cl[0]
                else:
                    unguarded_c.append(cl[0])
            else:
                kind, cval = ("far" if truth else "near"), cl[0]
        return kind, cval

    unguarded_c = []

    far = near = None
    try:
        for expr, node, guards in stores:
            kind, c = region(guards)
            e = tr.tr(expr)
            if kind in ("far", "all"):
                far = (e, node, c, kind)
            else:
                near = (e, node, c)
    except _WrongUnit as wu:
        ctx.bad(rid, wu.test, f"the wrap threshold `{short(wu.test, 50)}` compares the distance with a multiple of (box length)^{wu.power}, not of the box length: whether a component is wrapped then depends on the unit of length - for a box edge shorter than one length unit components between L/2 and 1/(2L) stay unwrapped, the minimum image exceeds half a box length and the periodic order parameters change under a shift by a box vector (for edges >= 1 nothing changes, which is why it hides)",
                construct="wrap threshold not proportional to the box length")
        return
    except S.Undecidable as exc:
        raise AnalysisError(f"R-20.7: cannot translate pbc_dist_coordinate: {exc}")
    if far is None:
        ctx.bad(rid, f, "pbc_dist_coordinate never wraps: distances beyond half a box length are returned unchanged")
        return
    e, node, c, kind = far
    # (1) growth: a periodic function of d has slope 0
    try:
        sl = S.slope_in_d(e)
    except S.Undecidable as exc:
        raise AnalysisError(f"R-20.7: growth of the wrap expression undecided: {exc}")
    if sl:
        ctx.bad(rid, node, f"the wrapped distance `{short(node, 60)}` grows like ({S.show(sl)})*d: it subtracts a bounded correction, not the multiple of the box length nearest to the distance, so a raw distance of more than 1.5 box lengths (an atom shifted by two or more box vectors, unwrapped trajectories) is not mapped to the minimum image - the periodic order parameters are not invariant under shifting an atom by a box vector",
                construct="wrap expression " + short(node, 70), detail={"symbolic": S.show(e), "slope": S.show(sl)})
        return
    # (2) invariance proof by equivariance of the rounding function
    diff = S.add(S.substitute_shift(e), e, -1)
    if diff and S.has_fn(e, "fmod"):
        ctx.bad(rid, node, f"the wrap formula `{short(node, 60)}` folds with fmod, the truncating remainder: its result carries the sign of the dividend, so w(d + k*L) = w(d) fails whenever the shift crosses zero - a component below -L/2 is not brought back into the box (d = -0.7 L stays -0.7 L), the minimum image exceeds half a box length, Distance((i, j)) and Distance((j, i)) differ and shifting an atom by a box vector changes the periodic order parameters. (numpy.mod / % - the floored remainder - is the periodic one.)",
                construct="wrap expression folds with fmod", detail={"symbolic": S.show(e), "difference": S.show(diff)})
        return
    if diff:
        raise AnalysisError(f"R-20.7: w(d + k*L) - w(d) = {S.show(diff)} could not be reduced to 0 with the equivariance rules known to the checker (cannot decide)")
    ctx.ok(rid, node, f"w(d) = {S.show(e)} satisfies w(d + k*L) = w(d) for every integer k (rounding commutes with integer shifts; L*(1/L) = 1)")
    # (2b) open axes: the wrap formula is evaluated for an axis only when that axis is beyond half its length
    if kind == "all":
        ctx.bad(rid, node, f"the wrap formula `{short(node, 60)}` is evaluated for every axis without a per-axis test |d_i| > L_i/2 (element-wise `if` or numpy.where selection): on an open axis, for which the engines report an infinite box length (TurtleMD Box(periodic=[..., False]), AMS), it computes rint(d/inf)*inf = 0*inf = nan, so the periodic order parameters return nan instead of the unwrapped component", construct="wrap formula evaluated without per-axis guard")
        return
    ctx.ok(rid, node, "the wrap formula is selected per axis by |d_i| > c*L_i: an axis with infinite length keeps its component")
    # (3) the unwrapped region
    if near is not None:
        ne, nnode, nc = near
        if nc > Fraction(1, 2):
            ctx.bad(rid, nnode, f"distances up to {nc} box lengths are returned unwrapped: beyond half a box length the nearest image is another one", construct="unwrapped region bound " + str(nc))
        elif not _rounding_vanishes(S, e, nc):
            ctx.bad(rid, nnode, "the rounding term of the wrap formula is not zero on the whole unwrapped region (it rounds down/up instead of to the nearest integer): the two branches do not describe one periodic function, and the wrapped value is not the nearest image", construct="rounding term does not vanish on the near region")
        elif S.key(ne) != S.key(S.zero_rounding(e)):
            ctx.bad(rid, nnode, f"inside half a box length the helper returns `{S.show(ne)}` although the wrap formula reduces to `{S.show(S.zero_rounding(e))}` there: the two branches do not describe one periodic function", construct="near-branch value " + short(nnode, 60))
        else:
            ctx.ok(rid, nnode, f"for |d| <= {nc}*L the helper returns the restriction of the same function (the rounding term vanishes there)")
    elif kind == "far":
        ctx.bad(rid, f, "no value is stored for distances within half a box length")


def r209(ctx, classes):
    """Box lengths index Cartesian components. Arrays of vectors in the order-parameter code keep
    one vector per row (`np.array([v1, v2, v3])`, `system.pos[idx]`), so the box lengths combine
    with them along the last axis - shape (3,) or (1, 3). Box lengths reshaped to a column
    (`[:, np.newaxis]`, `[:, None]`, `.reshape(3, 1)` / `(-1, 1)`) broadcast along the rows: vector
    k is wrapped with length k in every component, which is invisible in a cubic box."""
    rid = "R-20.9"
    n = 0
    for m, name, c, calc in classes:
        fl = flow_of(calc)
        cols = {}
        for st in walk_local(calc):
            if isinstance(st, ast.Assign) and len(st.targets) == 1 and isinstance(st.targets[0], ast.Name) and "box" in ast.unparse(st.value):
                v = st.value
                col = False
                for x in ast.walk(v):
                    if isinstance(x, ast.Subscript) and isinstance(x.slice, ast.Tuple) and len(x.slice.elts) == 2 and isinstance(x.slice.elts[0], ast.Slice) and (
                            (isinstance(x.slice.elts[1], ast.Constant) and x.slice.elts[1].value is None) or ast.unparse(x.slice.elts[1]).endswith("newaxis")):
                        col = True
                    if isinstance(x, ast.Call) and last_name(x) == "reshape" and ast.unparse(x).replace(" ", "").endswith((",1)", ",1))")):
                        col = True
                if col:
                    cols[st.targets[0].id] = st
        n += 1
        if not cols:
            ctx.ok(rid, calc, f"{name}.calculate: box lengths are never reshaped to a column", nontrivial=False)
            continue
        for bname, bst in cols.items():
            for x in walk_local(calc):
                if not (isinstance(x, (ast.BinOp, ast.Compare, ast.AugAssign)) or (isinstance(x, ast.Call) and last_name(x) == "where")):
                    continue
                ops = [x.left, x.right] if isinstance(x, ast.BinOp) else ([x.left] + list(x.comparators) if isinstance(x, ast.Compare) else ([x.target, x.value] if isinstance(x, ast.AugAssign) else list(x.args)))
                if not any(isinstance(o, ast.Name) and o.id == bname for o in ast.walk(ast.Tuple(elts=ops, ctx=ast.Load()))):
                    continue
                for o in ops:
                    for nm in [y for y in ast.walk(o) if isinstance(y, ast.Name) and y.id != bname]:
                        try:
                            e2, _ = deref(fl, nm, fl.cfg.node_of(enclosing_stmt(x)))
                        except Exception:
                            continue
                        rows_are_vectors = (isinstance(e2, ast.Call) and last_name(e2) in ("array", "asarray", "stack", "vstack") and e2.args and isinstance(e2.args[0], (ast.List, ast.Tuple)) and len(e2.args[0].elts) >= 2 and not all(isinstance(el, ast.Constant) for el in e2.args[0].elts)) \
                            or (isinstance(e2, ast.Subscript) and ast.unparse(e2.value).endswith(".pos"))
                        if rows_are_vectors:
                            ctx.bad(rid, x, f"{name}.calculate combines `{nm.id}` (one vector per row: `{short(e2, 40)}`) with the box lengths reshaped to a column (`{short(bst, 50)}`): NumPy broadcasts the column along the rows, so vector k is wrapped with box length k in every component instead of component j with length j - shifting an atom by a box vector changes the order parameter in every non-cubic box", construct=f"{name}.calculate: column-shaped box lengths against row vectors")
                            break
                    else:
                        continue
                    break
    if n < 4:
        raise AnalysisError(f"R-20.9: only {n} order-parameter classes examined")


def run(ctx):
    ctx.rule("R-20.6", "no `for` variable of the order-parameter code is read after its loop has ended", floor=2)
    ctx.rule("R-20.8", "distance, distance rate, dihedral and puckering are functions of translation-invariant, rotation-covariant vectors only (abstract interpretation of calculate() over geometric types: translation weight, vector/scalar/component kinds)", floor=4)
    ctx.rule("R-20.7", "the minimum-image helper w satisfies w(d + k*L) = w(d) for every integer k: symbolic proof by equivariance of the rounding function, asymptotic-slope refutation otherwise", floor=1)
    ctx.rule("R-20.1", "calculate() / calculate_order() / pbc helper never modify the system or arrays aliasing it (NumPy view/copy table)", floor=8)
    ctx.rule("R-20.2", "every box handed to pbc_dist_coordinate is system.box[:3]", floor=4)
    ctx.rule("R-20.3", "velocity dependence declared iff calculate reads system.vel; Path.reverse recomputes for velocity-dependent parameters", floor=6)
    ctx.rule("R-20.4", "the minimum-image wrap is applied to the raw difference of two positions, before any rescaling (necessary for invariance under periodic image shifts)", floor=4)
    ctx.rule("R-20.5", "calculate_order applies the vel_rev negation to the velocities it finally uses (parameter or re-read), so velocity-type parameters change sign under reversal", floor=1)
    classes = op_classes(ctx.tree)
    if len(classes) < 6:
        raise AnalysisError(f"C20: only {len(classes)} order-parameter classes with calculate() found (expected >= 6)")
    ctx.rule("R-20.9", "box lengths combine with arrays of row vectors along the component axis (never reshaped to a column that broadcasts along the rows)", floor=4)
    ctx.attempt(r209, ctx, classes)
    ctx.attempt(r201, ctx, classes)
    ctx.attempt(r202, ctx, classes)
    ctx.attempt(r203, ctx, classes)
    ctx.attempt(r204, ctx, classes)
    ctx.attempt(r205, ctx)
    ctx.attempt(r207, ctx)
    ctx.attempt(r208, ctx, classes)
    from .shared import stale_loop_variable
    ctx.attempt(stale_loop_variable, ctx, "R-20.6", [ORDERP], None, " (another atom / component than intended enters the order parameter)")


VARIANTS = [
    B("c20-wrap-threshold-on-the-inverse-length", ORDERP, "        if np.abs(distance[i]) > 0.5 * length:", "        if np.abs(distance[i]) > 0.5 * ilength:", "R-20.7", control=True, why="seeded C20_p"),
    B("c20-wrap-behind-a-norm-pre-test", ORDERP, "            box = np.array(system.box[:3])\n            delta = pbc_dist_coordinate(delta, box)\n        lamb = np.sqrt(np.dot(delta, delta))\n        return [lamb]", "            box = np.array(system.box[:3])\n            if np.dot(delta, delta) > np.dot(0.5 * box, 0.5 * box):\n                delta = pbc_dist_coordinate(delta, box)\n        lamb = np.sqrt(np.dot(delta, delta))\n        return [lamb]", "R-20.4", control=True, why="seeded C20_o (inlined)"),
    B("c20-wrap-folds-with-the-truncating-remainder", ORDERP, "    box_ilengths = 1.0 / box_lengths\n    pbcdist = np.zeros(distance.shape)\n    for i, (length, ilength) in enumerate(zip(box_lengths, box_ilengths)):\n        if np.abs(distance[i]) > 0.5 * length:\n            pbcdist[i] = distance[i] - np.rint(distance[i] * ilength) * length\n", "    pbcdist = np.zeros(distance.shape)\n    for i, length in enumerate(box_lengths):\n        half = 0.5 * length\n        if np.abs(distance[i]) > half:\n            pbcdist[i] = np.fmod(distance[i] + half, length) - half\n", "R-20.7", control=True, why="seeded C20_n"),
    K("c20-keep-wrap-folds-with-the-floored-remainder", ORDERP, "    box_ilengths = 1.0 / box_lengths\n    pbcdist = np.zeros(distance.shape)\n    for i, (length, ilength) in enumerate(zip(box_lengths, box_ilengths)):\n        if np.abs(distance[i]) > 0.5 * length:\n            pbcdist[i] = distance[i] - np.rint(distance[i] * ilength) * length\n", "    pbcdist = np.zeros(distance.shape)\n    for i, length in enumerate(box_lengths):\n        half = 0.5 * length\n        if np.abs(distance[i]) > half:\n            pbcdist[i] = np.mod(distance[i] + half, length) - half\n", why="mod(d + L/2, L) - L/2 = d - floor(d/L + 1/2) L: periodic, differs from the rint form only exactly on the half-box boundary"),
    B("c20-puckering-centre-without-axis", ORDERP, "        center = np.mean(pos, axis=0)", "        center = np.mean(pos)", "R-20.8", control=True, why="seeded C20_m"),
    B("c20-dihedral-box-broadcast-along-rows", ORDERP, "            box = np.array(system.box[:3])\n            vector1 = pbc_dist_coordinate(vector1, box)\n            vector2 = pbc_dist_coordinate(vector2, box)\n            vector3 = pbc_dist_coordinate(vector3, box)\n", "            bonds = np.array([vector1, vector2, vector3], dtype=float)\n            box = np.array(system.box[:3])[:, np.newaxis]\n            far = np.abs(bonds) > 0.5 * box\n            bonds -= np.rint(bonds / box) * np.where(far, box, 0.0)\n            vector1, vector2, vector3 = bonds\n", "R-20.9", control=True, why="seeded C20_l"),
    B("c20-flip-skipped-for-own-velocities", ENGBASE, "        if vel is not None:\n            system.vel = vel * -1.0 if system.vel_rev else vel", "        if vel is not None and vel is not system.vel:\n            system.vel = vel * -1.0 if system.vel_rev else vel", "R-20.5", control=True, why="seeded C20_k"),
    K("c20-keep-puckering-displacements-comprehension", ORDERP, "        z = np.zeros(6)\n        for i in range(6):\n            z[i] = np.dot(pos[i, :], n)\n", "        z = np.array([np.dot(pos[i, :], n) for i in range(6)], dtype=float)\n"),
    B("c20-puckering-displacements-raw-component", ORDERP, "        z = np.zeros(6)\n        for i in range(6):\n            z[i] = np.dot(pos[i, :], n)\n", "        z = np.array([pos[i, 2] for i in range(6)], dtype=float)\n", "R-20.8"),
    B("c20-distance-absolute-position", ORDERP, "        delta = system.pos[self.index[1]] - system.pos[self.index[0]]\n        if self.periodic and system.box is not None:\n            box = np.array(system.box[:3])\n            delta = pbc_dist_coordinate(delta, box)\n        lamb = np.sqrt(np.dot(delta, delta))\n        return [lamb]", "        delta = system.pos[self.index[1]]\n        if self.periodic and system.box is not None:\n            box = np.array(system.box[:3])\n            delta = pbc_dist_coordinate(delta, box)\n        lamb = np.sqrt(np.dot(delta, delta))\n        return [lamb]", "R-20.8", control=True),
    B("c20-distance-returns-component", ORDERP, "        lamb = np.sqrt(np.dot(delta, delta))\n        return [lamb]", "        lamb = np.sqrt(np.dot(delta, delta))\n        return [delta[0]]", "R-20.8"),
    B("c20-dihedral-sum-of-positions", ORDERP, "        vector1 = pos[self.index[0]] - pos[self.index[1]]", "        vector1 = pos[self.index[0]] + pos[self.index[1]]", "R-20.8"),
    B("c20-puckering-recentre-five-atoms", ORDERP, "        for i in range(6):\n            pos[i, :] -= center", "        for i in range(5):\n            pos[i, :] -= center", "R-20.8"),
    B("c20-puckering-atom0-not-at-origin", ORDERP, "            pos[0, :] *= 0\n", "", "R-20.8"),
    B("c20-distancevel-scaled-by-position", ORDERP, "        cv1 = np.dot(delta, delta_v) / lamb\n", "        cv1 = np.dot(system.pos[self.index[0]], delta_v) / lamb\n", "R-20.8"),
    K("c20-keep-distance-norm", ORDERP, "        lamb = np.sqrt(np.dot(delta, delta))\n        return [lamb]", "        lamb = np.linalg.norm(delta)\n        return [float(lamb)]"),
    K("c20-keep-dihedral-normalise-assign", ORDERP, "        vector2 /= np.linalg.norm(vector2)", "        vector2 = vector2 / np.sqrt(vector2.dot(vector2))"),
    K("c20-keep-puckering-mean-method", ORDERP, "        center = np.mean(pos, axis=0)", "        center = pos.mean(axis=0)"),
    B("c20-wrap-one-box-length", ORDERP, "            pbcdist[i] = distance[i] - np.rint(distance[i] * ilength) * length", "            pbcdist[i] = distance[i] - np.copysign(length, distance[i])", "R-20.7", control=True, why="seeded C20_c"),
    B("c20-wrap-missing-length-factor", ORDERP, "            pbcdist[i] = distance[i] - np.rint(distance[i] * ilength) * length", "            pbcdist[i] = distance[i] - np.rint(distance[i] * ilength)", "R-20.7"),
    B("c20-wrap-threshold-three-quarters", ORDERP, "        if np.abs(distance[i]) > 0.5 * length:", "        if np.abs(distance[i]) > 0.75 * length:", "R-20.7"),
    B("c20-wrap-floor", ORDERP, "            pbcdist[i] = distance[i] - np.rint(distance[i] * ilength) * length", "            pbcdist[i] = distance[i] - np.floor(distance[i] * ilength) * length", "R-20.7"),
    B("c20-wrap-near-branch-zero", ORDERP, "        else:\n            pbcdist[i] = distance[i]\n    return pbcdist", "        else:\n            pbcdist[i] = 0.0\n    return pbcdist", "R-20.7"),
    B("c20-wrap-unguarded-vectorised", ORDERP, "    box_ilengths = 1.0 / box_lengths\n    pbcdist = np.zeros(distance.shape)\n    for i, (length, ilength) in enumerate(zip(box_lengths, box_ilengths)):\n        if np.abs(distance[i]) > 0.5 * length:\n            pbcdist[i] = distance[i] - np.rint(distance[i] * ilength) * length\n        else:\n            pbcdist[i] = distance[i]\n    return pbcdist", "    return distance - np.rint(distance / box_lengths) * box_lengths", "R-20.7", why="was kept as a preserving variant until seed C20_i showed that the per-axis guard protects open axes (infinite length): 0*inf = nan"),
    B("c20-wrap-global-fast-path", ORDERP, "    box_ilengths = 1.0 / box_lengths\n    pbcdist = np.zeros(distance.shape)\n    for i, (length, ilength) in enumerate(zip(box_lengths, box_ilengths)):\n        if np.abs(distance[i]) > 0.5 * length:\n            pbcdist[i] = distance[i] - np.rint(distance[i] * ilength) * length\n        else:\n            pbcdist[i] = distance[i]\n    return pbcdist", "    if not np.any(np.abs(distance) > 0.5 * box_lengths):\n        return distance.copy()\n    box_ilengths = 1.0 / box_lengths\n    return distance - np.rint(distance * box_ilengths) * box_lengths", "R-20.7", control=True, why="seeded C20_i"),
    K("c20-keep-wrap-fast-path-then-where", ORDERP, "    box_ilengths = 1.0 / box_lengths\n    pbcdist = np.zeros(distance.shape)\n    for i, (length, ilength) in enumerate(zip(box_lengths, box_ilengths)):\n        if np.abs(distance[i]) > 0.5 * length:\n            pbcdist[i] = distance[i] - np.rint(distance[i] * ilength) * length\n        else:\n            pbcdist[i] = distance[i]\n    return pbcdist", "    far = np.abs(distance) > 0.5 * box_lengths\n    if not np.any(far):\n        return distance.copy()\n    box_ilengths = 1.0 / box_lengths\n    return np.where(far, distance - np.rint(distance * box_ilengths) * box_lengths, distance)"),
    K("c20-keep-wrap-floor-half", ORDERP, "            pbcdist[i] = distance[i] - np.rint(distance[i] * ilength) * length", "            pbcdist[i] = distance[i] - length * np.floor(distance[i] / length + 0.5)"),
    K("c20-keep-wrap-where", ORDERP, "    pbcdist = np.zeros(distance.shape)\n    for i, (length, ilength) in enumerate(zip(box_lengths, box_ilengths)):\n        if np.abs(distance[i]) > 0.5 * length:\n            pbcdist[i] = distance[i] - np.rint(distance[i] * ilength) * length\n        else:\n            pbcdist[i] = distance[i]\n    return pbcdist", "    pbcdist = np.where(np.abs(distance) > 0.5 * box_lengths, distance - np.round(distance * box_ilengths) * box_lengths, distance)\n    return pbcdist"),
    B("c20-puckering-center-after-loop", ORDERP, "        for i in range(6):\n            pos[i, :] -= center", "        for i in range(6):\n            pass\n        pos[i, :] -= center", "R-20.6", control=True),
    B("c20-puckering-slice-view", ORDERP, "        pos = system.pos[list(self.index)]", "        pos = system.pos[self.index[0] : self.index[0] + 6]", "R-20.1", control=True),
    B("c20-dihedral-inplace-on-view", ORDERP, "        pos = system.pos\n        vector1 = pos[self.index[0]] - pos[self.index[1]]", "        pos = system.pos\n        pos -= pos[self.index[0]]\n        vector1 = pos[self.index[0]] - pos[self.index[1]]", "R-20.1"),
    B("c20-distance-row-store", ORDERP, "        delta = system.pos[self.index[1]] - system.pos[self.index[0]]\n        if self.periodic and system.box is not None:\n            box = np.array(system.box[:3])\n            delta = pbc_dist_coordinate(delta, box)\n        lamb = np.sqrt(np.dot(delta, delta))\n        return [lamb]", "        delta = system.pos[self.index[1]]\n        delta -= system.pos[self.index[0]]\n        if self.periodic and system.box is not None:\n            box = np.array(system.box[:3])\n            delta = pbc_dist_coordinate(delta, box)\n        lamb = np.sqrt(np.dot(delta, delta))\n        return [lamb]", "R-20.1"),
    B("c20-calculate-stores-order", ORDERP, "        lamb = np.sqrt(np.dot(delta, delta))\n        return [lamb]", "        lamb = np.sqrt(np.dot(delta, delta))\n        system.order = [lamb]\n        return [lamb]", "R-20.1"),
    B("c20-calculate-order-negates-in-place", ENGBASE, "            system.vel = vel * -1.0 if system.vel_rev else vel", "            if system.vel_rev:\n                vel *= -1.0\n            system.vel = vel", "R-20.1"),
    B("c20-pbc-helper-in-place", ORDERP, "    pbcdist = np.zeros(distance.shape)\n", "    pbcdist = distance\n", "R-20.1"),
    B("c20-distancevel-raw-box", ORDERP, "            box = np.array(system.box[:3])\n            delta = pbc_dist_coordinate(delta, box)\n        lamb = np.sqrt(np.dot(delta, delta))\n        # Add the velocity", "            delta = pbc_dist_coordinate(delta, system.box)\n        lamb = np.sqrt(np.dot(delta, delta))\n        # Add the velocity", "R-20.2", control=True, why="pre-fix D9"),
    K("c20-keep-box-helper", ORDERP, "            box = np.array(system.box[:3])\n            delta = pbc_dist_coordinate(delta, box)\n        lamb = np.sqrt(np.dot(delta, delta))\n        return [lamb]", "            box = _box_lengths(system.box)\n            delta = pbc_dist_coordinate(delta, box)\n        lamb = np.sqrt(np.dot(delta, delta))\n        return [lamb]",
      also=[(ORDERP, "class OrderParameter:\n", "def _box_lengths(box):\n    box = np.asarray(box, dtype=float)\n    return np.array(box[:3])\n\n\nclass OrderParameter:\n")], why="a correct helper must stay silent (seed C20_f used a helper)"),
    K("c20-keep-box-method-helper", ORDERP, "            box = np.array(system.box[:3])\n            delta = pbc_dist_coordinate(delta, box)\n        lamb = np.sqrt(np.dot(delta, delta))\n        return [lamb]", "            box = self.cell_lengths(system)\n            delta = pbc_dist_coordinate(delta, box)\n        lamb = np.sqrt(np.dot(delta, delta))\n        return [lamb]",
      also=[(ORDERP, "    @abstractmethod\n    def calculate(self, system: System) -> List[float]:", "    def cell_lengths(self, system):\n        return np.array(system.box[:3], dtype=float)\n\n    @abstractmethod\n    def calculate(self, system: System) -> List[float]:")], why="a correct method helper must stay silent (seed C20_g used one)"),
    B("c20-box-lengths-cached-from-first-frame", ORDERP, "            box = np.array(system.box[:3])\n            delta = pbc_dist_coordinate(delta, box)\n        lamb = np.sqrt(np.dot(delta, delta))\n        return [lamb]", "            box = self.cell_lengths(system)\n            delta = pbc_dist_coordinate(delta, box)\n        lamb = np.sqrt(np.dot(delta, delta))\n        return [lamb]", "R-20.2",
      also=[(ORDERP, "    @abstractmethod\n    def calculate(self, system: System) -> List[float]:", "    def cell_lengths(self, system):\n        if getattr(self, \"_cell\", None) is None:\n            self._cell = np.array(system.box[:3], dtype=float)\n        return self._cell\n\n    @abstractmethod\n    def calculate(self, system: System) -> List[float]:")], why="seeded C20_g"),
    B("c20-box-helper-wrong-guard", ORDERP, "            box = np.array(system.box[:3])\n            delta = pbc_dist_coordinate(delta, box)\n        lamb = np.sqrt(np.dot(delta, delta))\n        return [lamb]", "            box = _box_lengths(system.box)\n            delta = pbc_dist_coordinate(delta, box)\n        lamb = np.sqrt(np.dot(delta, delta))\n        return [lamb]", "R-20.2",
      also=[(ORDERP, "class OrderParameter:\n", "def _box_lengths(box):\n    box = np.asarray(box, dtype=float)\n    if box.size > 3 and np.any(box[:3]):\n        return np.full(3, np.inf)\n    return np.array(box[:3])\n\n\nclass OrderParameter:\n")], why="seeded C20_f"),
    B("c20-dihedral-raw-box", ORDERP, "            box = np.array(system.box[:3])\n            vector1 = pbc_dist_coordinate(vector1, box)", "            box = np.array(system.box)\n            vector1 = pbc_dist_coordinate(vector1, box)", "R-20.2"),
    B("c20-distancevel-not-declared", ORDERP, "        super().__init__(description=txt, velocity=True)\n        self.periodic = periodic\n        self.index = index", "        super().__init__(description=txt, velocity=False)\n        self.periodic = periodic\n        self.index = index", "R-20.3", control=True),
    B("c20-reverse-never-recomputes", PATH, "        if order_function.velocity_dependent and rev_v:\n            for phasepoint in new_path.phasepoints:\n                phasepoint.order = order_function.calculate(phasepoint)", "        if False:\n            for phasepoint in new_path.phasepoints:\n                phasepoint.order = order_function.calculate(phasepoint)", "R-20.3"),
    B("c20-dihedral-normalise-before-wrap", ORDERP, "        vector3 = pos[self.index[3]] - pos[self.index[2]]\n", "        vector3 = pos[self.index[3]] - pos[self.index[2]]\n        vector2 /= np.linalg.norm(vector2)\n", "R-20.4", control=True, why="seeded C20_a"),
    B("c20-distance-wrap-of-scaled", ORDERP, "            box = np.array(system.box[:3])\n            delta = pbc_dist_coordinate(delta, box)\n        lamb = np.sqrt(np.dot(delta, delta))\n        return [lamb]", "            box = np.array(system.box[:3])\n            delta = pbc_dist_coordinate(0.5 * delta, box) * 2\n        lamb = np.sqrt(np.dot(delta, delta))\n        return [lamb]", "R-20.4"),
    B("c20-negation-before-reread", ENGBASE, "        # Convert system into an internal representation:\n        if any((xyz is None, vel is None, box is None)):", "        if vel is not None and system.vel_rev:\n            vel = vel * -1.0\n        # Convert system into an internal representation:\n        if any((xyz is None, vel is None, box is None)):", "R-20.5", control=True, why="seeded C20_b",
      also=[(ENGBASE, "            system.vel = vel * -1.0 if system.vel_rev else vel", "            system.vel = vel")]),
    B("c20-negation-dropped", ENGBASE, "            system.vel = vel * -1.0 if system.vel_rev else vel", "            system.vel = vel", "R-20.5"),
    K("c20-keep-negation-as-if", ENGBASE, "            system.vel = vel * -1.0 if system.vel_rev else vel", "            if system.vel_rev:\n                vel = -vel\n            system.vel = vel"),
    K("c20-keep-puckering-array-index", ORDERP, "        pos = system.pos[list(self.index)]", "        pos = np.array(system.pos[list(self.index)])"),
    K("c20-keep-distance-copy-then-inplace", ORDERP, "        delta = system.pos[self.index[1]] - system.pos[self.index[0]]\n        if self.periodic and system.box is not None:\n            box = np.array(system.box[:3])\n            delta = pbc_dist_coordinate(delta, box)\n        lamb = np.sqrt(np.dot(delta, delta))\n        return [lamb]", "        delta = np.array(system.pos[self.index[1]])\n        delta -= system.pos[self.index[0]]\n        if self.periodic and system.box is not None:\n            box = np.array(system.box[:3])\n            delta = pbc_dist_coordinate(delta, box)\n        lamb = np.sqrt(np.dot(delta, delta))\n        return [lamb]"),
    K("c20-keep-box-local", ORDERP, "            box = np.array(system.box[:3])\n            vector1 = pbc_dist_coordinate(vector1, box)", "            lengths = system.box[:3]\n            box = np.array(lengths)\n            vector1 = pbc_dist_coordinate(vector1, box)"),
    K("c20-keep-velocity-positional", ORDERP, "        super().__init__(description=txt, velocity=True)\n        self.periodic = periodic\n        self.index = index", "        super().__init__(txt, True)\n        self.periodic = periodic\n        self.index = index"),
]
