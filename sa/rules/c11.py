"""C11 - zero swaps exchange the crossing frames (control-flow clauses only).

Decided: the lambda_-1 early rejection precedes any engine call; the frames
taken from the two old paths are the right ends, as copies, and end up on the
right side of the propagated segments; a zero swap is started only when both
ensembles are idle (shared with C03); flag <=> status (shared with C09).
"""

from __future__ import annotations

import ast

from ..cfg import cfg_of
from ..flow import deref, flow_of, path_of
from ..loader import FUNC, AnalysisError, dotted, last_name, loc, short, walk_local, enclosing_stmt
from ..util import ASE, LAMMPS, REPEX, SETUP, TIS, TURTLE, is_self_attr, kwarg, last_key
from ..variants import B, K

EXPLANATION = (
    "(R-11.1) never-between query on the CFG of retis_swap_zero: the return "
    "with status '0-L' (ensemble allows both start sides and the old [0-] path "
    "ended 'L') is reached without passing any engine call (propagate, "
    "dump_phasepoint); quantis_swap_zero has no such branch, so check_config "
    "must reject quantis together with lambda_minus_one; (R-11.2) frame-role "
    "provenance: the frames read from the old paths by constant index, through "
    "aliases and .copy(), are exactly old[0+][0] (start of the backward "
    "propagation of the new [0-] path), old[0+][1] (appended after the "
    "reversed segment), old[0-][-1] (start of the forward propagation of the "
    "new [0+] path) and old[0-][-2] (placed before that segment); for QuanTIS "
    "old[0+][0] -> [0-] engine and old[0-][-2] -> [0+] engine; (R-11.3) a zero "
    "swap is started only when the partner is idle (C03 R-3.4) and flag <=> "
    "status holds for both swap functions (C09 R-9.1), evaluated here as well."
)
NOT_DECIDED = (
    "(R-11.4 decides one structural necessary condition of the acceptance rule: the pairing of energy differences and betas) "
    "the junction identity as a statement about frame contents, reversibility under deterministic dynamics, "
    "validity of the new paths in their ensembles, the numeric Metropolis threshold min(1, exp(b0*dV0 - b1*dV1))"
)
ASSUMPTIONS = ["picked[-1] is the [0-] entry and picked[0] the [0+] entry of a zero-swap job (keys assigned in REPEX_state.pick)"]

SINKS = ("propagate", "dump_phasepoint", "modify_velocities", "calculate_order")


def r111(ctx):
    rid = "R-11.1"
    tree = ctx.tree
    f = tree.func(TIS, "retis_swap_zero")
    cfg = cfg_of(f)
    rets = [r for r in walk_local(f) if isinstance(r, ast.Return) and isinstance(r.value, ast.Tuple) and len(r.value.elts) == 3
            and isinstance(r.value.elts[2], ast.Constant) and r.value.elts[2].value == "0-L"]
    sinks = [c for c in walk_local(f) if isinstance(c, ast.Call) and isinstance(c.func, ast.Attribute) and c.func.attr in SINKS]
    if not sinks:
        raise AnalysisError("R-11.1: no engine calls found in retis_swap_zero")
    # position of the *end* classification in the tuple returned by Path.check_interfaces
    ci = tree.func("infretis/classes/path.py", "Path.check_interfaces")
    end_idx = None
    cifl = flow_of(ci)
    for rr in [n for n in walk_local(ci) if isinstance(n, ast.Return) and isinstance(n.value, ast.Tuple)]:
        for i_, x in enumerate(rr.value.elts):
            for kind, node, at_, extra in cifl.sources(x, cifl.cfg.node_of(rr)):
                if kind == "expr" and isinstance(node, ast.Call) and last_name(node) == "get_end_point":
                    end_idx = i_
    if end_idx is None:
        raise AnalysisError("R-11.1: Path.check_interfaces does not return a tuple containing `end`")
    early = None
    wrong_end = None
    for r in rets:
        guards = cfg.guards(cfg.node_of(r))
        g = [(ast.unparse(e), t) for e, t, _ in guards]
        if not any("start_cond" in x and t for x, t in g):
            continue
        for e, t, _ in guards:
            if not t or not isinstance(e, ast.Compare) or not isinstance(e.ops[0], ast.Eq):
                continue
            l, rgt = e.left, e.comparators[0]
            if not (isinstance(rgt, ast.Constant) and rgt.value == "L"):
                continue
            # check_interfaces(...)[end_idx]  or  get_end_point(...)
            if isinstance(l, ast.Subscript) and isinstance(l.value, ast.Call) and last_name(l.value) == "check_interfaces":
                try:
                    k = ast.literal_eval(l.slice)
                except Exception:
                    k = None
                if k in (end_idx, end_idx - 4):
                    early = r
                else:
                    wrong_end = (r, k)
            if isinstance(l, ast.Call) and last_name(l) == "get_end_point":
                early = r
    if early is None and wrong_end is not None:
        ctx.bad(rid, wrong_end[0], f"the lambda_-1 early rejection tests element {wrong_end[1]} of check_interfaces(...) - not the end point (element {end_idx}): "
                "a valid [0-] path that starts on the left is rejected, and a path that ended on the left is propagated before being rejected",
                construct=f"early '0-L' rejection on check_interfaces(...)[{wrong_end[1]}]")
        early = "reported"
    if early == "reported":
        pass
    elif early is None:
        ctx.bad(rid, f, "retis_swap_zero has no early rejection '0-L' for an old [0-] path that ended on the left when the ensemble allows both start sides (lambda_-1 variant): the move propagates before it is rejected, or is not rejected at all")
    else:
        rn = cfg.node_of(early)
        between = [s for s in sinks if cfg.reaches(cfg.entry, cfg.node_of(s)) and cfg.reaches(cfg.node_of(s), rn)]
        if between:
            ctx.bad(rid, between[0], "an engine call can be executed before the '0-L' rejection of the lambda_-1 variant: the move is not rejected without propagation")
        else:
            ctx.ok(rid, early, f"the '0-L' rejection is reached without passing any of the {len(sinks)} engine calls")
        # the rejected move returns the old paths untouched
        v = early.value.elts[1]
        fl_ = flow_of(f)
        if isinstance(v, ast.List) and [_old_role(fl_, x, rn) for x in v.elts] == ["old0", "old1"]:
            ctx.ok(rid, early, "the early rejection returns the two old paths")
        else:
            ctx.bad(rid, early, "the early rejection does not return the two old paths")
    # quantis: excluded by configuration
    cc = tree.func(SETUP, "check_config")
    ccfg = cfg_of(cc)
    found = False
    from .shared import _cfg_chain, _cfg_env
    cenv = _cfg_env(cc)

    def cfg_key(e):
        """last configuration key a (local) expression stands for"""
        c = _cfg_chain(e, cenv)
        if c:
            return c[-1]
        return None

    for r in [n for n in walk_local(cc) if isinstance(n, ast.Raise)]:
        par = getattr(r, "_parent", None)
        if isinstance(par, ast.If):
            t = ast.unparse(par.test)
            keys_in_test = {cfg_key(x) for x in ast.walk(par.test) if isinstance(x, (ast.Name, ast.Subscript, ast.Call))}
            if {"quantis", "lambda_minus_one"} <= keys_in_test and isinstance(par.test, ast.BoolOp) and isinstance(par.test.op, ast.And):
                found = True
                by_identity = any(isinstance(x, ast.Compare) and len(x.ops) == 1 and isinstance(x.ops[0], ast.IsNot) and isinstance(x.comparators[0], ast.Constant) and x.comparators[0].value is False and cfg_key(x.left) == "lambda_minus_one" for x in ast.walk(par.test))
                if by_identity:
                    ctx.ok(rid, r, "check_config rejects quantis together with any set lambda_minus_one (quantis_swap_zero has no '0-L' branch)")
                else:
                    ctx.bad(rid, r, "check_config excludes quantis + lambda_minus_one by truthiness: lambda_minus_one = 0.0 is accepted although quantis_swap_zero has no '0-L' rejection",
                            construct="if " + t)
    if not found:
        ctx.bad(rid, cc, "quantis_swap_zero has no early '0-L' rejection and check_config does not exclude quantis together with lambda_minus_one")


def _old_role(fl, e, at):
    """'old0' / 'old1' when e resolves to picked[-1]['traj'] / picked[0]['traj']."""
    for kind, node, sat, extra in fl.sources(e, at):
        txt = None
        if kind in ("param", "free"):
            txt = extra
        elif kind == "expr":
            txt = ast.unparse(node)
        if txt is None:
            return None
        t = txt.replace('"', "'").replace(" ", "")
        if t.endswith("picked[-1]['traj']"):
            return "old0"
        if t.endswith("picked[0]['traj']"):
            return "old1"
    return None


def _frame_roles(f):
    """[(old role, index, use, detail, node)] for frames read from the old paths by constant index."""
    fl = flow_of(f)
    cfg = fl.cfg
    out = []
    for n in walk_local(f):
        if not (isinstance(n, ast.Subscript) and isinstance(n.value, ast.Attribute) and n.value.attr == "phasepoints"):
            continue
        try:
            idx = ast.literal_eval(n.slice)
        except Exception:
            continue
        if not isinstance(idx, int):
            continue
        st = enclosing_stmt(n)
        if not cfg.nodes_of(st):
            continue
        role = _old_role(fl, n.value.value, cfg.node_of(st))
        if role is None:
            continue
        # must be taken as a copy and bound to a name
        par = getattr(n, "_parent", None)
        copied = isinstance(par, ast.Attribute) and par.attr == "copy" and isinstance(getattr(par, "_parent", None), ast.Call)
        if not (isinstance(st, ast.Assign) and isinstance(st.targets[0], ast.Name)):
            if isinstance(par, ast.Attribute) and par.attr in ("vpot", "order", "ekin"):
                continue  # reading a scalar of the frame
            out.append((role, idx, "other", short(st, 50), n, copied))
            continue
        var = st.targets[0].id
        # uses of this definition
        used = False
        for u in walk_local(f):
            if isinstance(u, ast.Call) and isinstance(u.func, ast.Attribute):
                args = list(u.args) + [k.value for k in u.keywords]
                for a in args:
                    if isinstance(a, ast.Name) and a.id == var and cfg.nodes_of(u):
                        rds = fl.rd(var, cfg.node_of(u))
                        if not any(d.stmt is st for d, _ in rds):
                            continue
                        if u.func.attr == "propagate":
                            rev = kwarg(u, "reverse", 3)
                            revv = isinstance(rev, ast.Constant) and rev.value is True
                            lv = _engine_level(fl, u.func.value, cfg.node_of(u))
                            eng = {-1: "engine0", 0: "engine1"}.get(lv, ast.unparse(u.func.value))  # resolved level of theory, not the local's name
                            dest = ast.unparse(u.args[0]) if u.args else "?"
                            out.append((role, idx, "start", f"{eng} reverse={revv} into {dest}", u, copied))
                            used = True
                        elif u.func.attr == "append":
                            out.append((role, idx, "append", ast.unparse(u.func.value), u, copied))
                            used = True
        if not used:
            out.append((role, idx, "unused", var, n, copied))
    return out


def r112(ctx):
    rid = "R-11.2"
    tree = ctx.tree
    f = tree.func(TIS, "retis_swap_zero")
    cfg = cfg_of(f)
    roles = _frame_roles(f)
    got = {(r, i, u) for r, i, u, d, n, c in roles if u in ("start", "append")}
    want = {("old1", 0, "start"), ("old1", 1, "append"), ("old0", -1, "start"), ("old0", -2, "append")}
    # the non-propagating branch also appends the start frames themselves (path_tmp.append(shpt_copy), path1.append(system))
    extra_ok = {("old1", 0, "append"), ("old0", -1, "append")}
    missing = want - got
    unexpected = got - want - extra_ok
    for r, i, u, d, n, c in roles:
        if not c:
            ctx.bad(rid, n, f"retis_swap_zero takes frame {r}[{i}] of an old path without .copy(): the swap would modify the old path's frame", construct=short(n, 60))
    if missing or unexpected:
        ctx.bad(rid, f, f"zero swap frame roles differ from the property: missing {sorted(missing)}, unexpected {sorted(unexpected)} "
                "(new [0-] must end with the first two frames of the old [0+] path, new [0+] must start with the last two frames of the old [0-] path)",
                construct=f"frame roles {sorted(got)}")
        return
    for r, i, u, d, n, c in roles:
        if (r, i, u) == ("old1", 0, "start"):
            if "reverse=True" in d and d.startswith("engine0"):
                ctx.ok(rid, n, "old[0+][0] starts the backward propagation with the [0-] engine")
            else:
                ctx.bad(rid, n, f"old[0+][0] is not propagated backward with the [0-] engine ({d})")
        if (r, i, u) == ("old0", -1, "start"):
            if "reverse=False" in d and d.startswith("engine1"):
                ctx.ok(rid, n, "old[0-][-1] starts the forward propagation with the [0+] engine")
            else:
                ctx.bad(rid, n, f"old[0-][-1] is not propagated forward with the [0+] engine ({d})")
        if (r, i, u) == ("old1", 1, "append"):
            # appended to the new [0-] path after the reversed segment
            seg = [l for l in walk_local(f) if isinstance(l, ast.For) and "reversed(" in ast.unparse(l.iter) and any(isinstance(c2, ast.Call) and last_name(c2) == "append" and ast.unparse(c2.func.value) == d for c2 in walk_local(l))]
            if seg and cfg.reaches(cfg.node_of(seg[0]), cfg.node_of(n)) and not cfg.reaches(cfg.node_of(n), cfg.node_of(seg[0])):
                ctx.ok(rid, n, f"old[0+][1] is appended to {d} after the reversed backward segment (the new [0-] path ends with the first two frames of the old [0+] path)")
            else:
                ctx.bad(rid, n, "old[0+][1] is not appended after the reversed backward segment of the new [0-] path")
        if (r, i, u) == ("old0", -2, "append"):
            seg = [s for s in walk_local(f) if isinstance(s, ast.AugAssign) and ast.unparse(s.target) == d]
            if seg and cfg.reaches(cfg.node_of(n), cfg.node_of(seg[0])) and not cfg.reaches(cfg.node_of(seg[0]), cfg.node_of(n)):
                ctx.ok(rid, n, f"old[0-][-2] is put into {d} before the forward segment (the new [0+] path starts with the last two frames of the old [0-] path)")
            else:
                ctx.bad(rid, n, "old[0-][-2] is not placed before the forward segment of the new [0+] path")
    # QuanTIS
    q = tree.func(TIS, "quantis_swap_zero")
    qroles = _frame_roles(q)
    gotq = {(r, i, u, d.split(" ")[0]) for r, i, u, d, n, c in qroles if u == "start"}
    wantq = {("old1", 0, "start", "engine0"), ("old0", -2, "start", "engine1")}
    for r, i, u, d, n, c in qroles:
        if u in ("start", "append") and not c:
            ctx.bad(rid, n, f"quantis_swap_zero takes frame {r}[{i}] of an old path without .copy()")
    if wantq <= gotq and not {(r, i) for r, i, u, e in gotq} - {(r, i) for r, i, u, e in wantq}:
        ctx.ok(rid, q, "QuanTIS: old[0+][0] is propagated in the [0-] engine and old[0-][-2] in the [0+] engine")
    else:
        ctx.bad(rid, q, f"QuanTIS frame roles differ: expected {sorted(wantq)}, found {sorted(gotq)}", construct=f"quantis frame roles {sorted(gotq)}")


def r114(ctx):
    """QuanTIS acceptance: each energy difference is weighted with the beta of the engine of
    its own level of theory (sibling pairing of the two terms of the exponent)."""
    rid = "R-11.4"
    tree = ctx.tree
    f = tree.func(TIS, "quantis_swap_zero")
    fl = flow_of(f)
    cfg = fl.cfg

    def engine_level(e, at, depth=0):
        """-1 / 0 when e resolves to engines[-1][0] / engines[0][0]."""
        if depth > 6:
            return None
        if isinstance(e, ast.Subscript):
            t = ast.unparse(e).replace(" ", "")
            if t == "engines[-1][0]":
                return -1
            if t == "engines[0][0]":
                return 0
        for kind, node, sat, extra in fl.sources(e, at):
            if kind == "expr" and node is not e:
                r = engine_level(node, sat, depth + 1)
                if r is not None:
                    return r
            if kind in ("param", "free"):
                t = extra.replace(" ", "")
                if t == "engines[-1][0]":
                    return -1
                if t == "engines[0][0]":
                    return 0
        return None

    # which engine propagated which path
    path_level = {}
    for c in [c for c in walk_local(f) if isinstance(c, ast.Call) and isinstance(c.func, ast.Attribute) and c.func.attr == "propagate" and c.args]:
        lv = engine_level(c.func.value, cfg.node_of(c))
        if isinstance(c.args[0], ast.Name) and lv is not None:
            path_level.setdefault(c.args[0].id, set()).add(lv)

    def energy_levels(e, at, depth=0, seen=None):
        """levels of theory of the potential energies an expression depends on"""
        seen = seen if seen is not None else set()
        out = set()
        for x in ast.walk(e):
            if isinstance(x, ast.Attribute) and x.attr == "vpot":
                base = x.value
                while isinstance(base, (ast.Subscript, ast.Attribute)):
                    base = base.value
                if isinstance(base, ast.Name):
                    role = _old_role(fl, base, at)
                    if role == "old0":
                        out.add(-1)
                    elif role == "old1":
                        out.add(0)
                    elif base.id in path_level:
                        out |= path_level[base.id]
                    else:
                        out.add("?")
            if isinstance(x, ast.Name) and depth < 6 and (x.id, at.id) not in seen:
                seen.add((x.id, at.id))
                for d, sfx in fl.rd(x.id, at):
                    if d.kind == "assign" and isinstance(d.value, ast.AST) and not isinstance(d.value, ast.Call):
                        out |= energy_levels(d.value, d.at, depth + 1, seen)
        return out

    pacc = [d for d in fl.defs if d.kind == "assign" and isinstance(getattr(d, "value", None), ast.Call) and last_name(d.value) in ("min", "max", "exp") and any(isinstance(x, ast.Call) and last_name(x) == "exp" for x in ast.walk(d.value))]
    if not pacc:
        raise AnalysisError("R-11.4: acceptance probability `pacc` not found in quantis_swap_zero")
    n = 0
    for d in pacc:
        prods = [x for x in ast.walk(d.value) if isinstance(x, ast.BinOp) and isinstance(x.op, ast.Mult)]
        for p in prods:
            sides = [p.left, p.right]
            beta = None
            for sd in sides:
                cand = sd
                # follow locals to `<engine>.beta`
                for _ in range(4):
                    if isinstance(cand, ast.Attribute) and cand.attr == "beta":
                        break
                    if isinstance(cand, ast.Name):
                        defs = [dd for dd, sfx in fl.rd(cand.id, d.at) if dd.kind == "assign" and not sfx and isinstance(dd.value, ast.AST)]
                        if len(defs) == 1:
                            cand = defs[0].value
                            continue
                    break
                if isinstance(cand, ast.Attribute) and cand.attr == "beta":
                    beta = (sd, engine_level(cand.value, d.at))
            if beta is None:
                continue
            other = [sd for sd in sides if sd is not beta[0]][0]
            lv = energy_levels(other, d.at)
            n += 1
            if beta[1] is None or "?" in lv or not lv:
                raise AnalysisError(f"R-11.4: cannot resolve the level of theory of `{short(p, 50)}`")
            if lv == {beta[1]}:
                ctx.ok(rid, p, f"`{short(p, 40)}`: energies of level {sorted(lv)} are weighted with the beta of the engine of the same level")
            else:
                ctx.bad(rid, p, f"QuanTIS acceptance: the energy difference of level {sorted(lv)} is multiplied by the beta of the engine of level {beta[1]}: "
                        "with different temperatures in [0-] and [0+] the swap is not accepted with probability min(1, exp(beta0*dV0 - beta1*dV1))",
                        construct=short(p, 70))
    if n < 2:
        raise AnalysisError(f"R-11.4: only {n} beta-weighted terms found in pacc")


def r113(ctx):
    """only-when-idle (C03 R-3.4) and flag<=>status (C09 R-9.1) for the swap functions, under C11 ids."""
    from . import c03, c09

    class Proxy:
        def __init__(self, c):
            self._c = c
            self.tree = c.tree

        def ok(self, rid, node, what, nontrivial=True):
            self._c.ok("R-11.3", node, what, nontrivial)

        def bad(self, rid, node, message, **kw):
            self._c.bad("R-11.3", node, message, **kw)

        def note(self, m):
            self._c.note(m)

        def attempt(self, fn, *a):
            return fn(*a)

    px = Proxy(ctx)
    cls = ctx.tree.cls(REPEX, "REPEX_state")
    methods = {s.name: s for s in cls.body if isinstance(s, FUNC)}
    acq = {"lock": "ens", "pick_traj_ens": "ens"}
    c03.r34(px, acq, methods)
    moves = {k: v for k, v in c09.move_functions(ctx.tree).items() if k.endswith("_swap_zero") or k == "high_acc_swap"}
    c09.r91(px, moves)


def _energy_shape(fl, f, e, at, depth=0):
    """Normalised construction of an energy array: text of its defining expression(s) with the
    kinetic/potential specific tokens replaced by one placeholder."""
    import re
    if depth > 3:
        return "?"
    if isinstance(e, ast.Name):
        defs = [d for d, _ in fl.rd(e.id, at) if d.kind in ("assign", "ann") and isinstance(getattr(d, "value", None), ast.AST)]
        parts = []
        for d in defs:
            v = d.value
            if isinstance(v, (ast.List,)) and not v.elts:
                # list filled by append(...)
                apps = [c for c in walk_local(f) if isinstance(c, ast.Call) and isinstance(c.func, ast.Attribute) and c.func.attr == "append" and isinstance(c.func.value, ast.Name) and c.func.value.id == e.id and c.args]
                parts.append("[" + ",".join(sorted(_energy_shape(fl, f, c.args[0], fl.cfg.node_of(c), depth + 1) for c in apps)) + "]")
            else:
                parts.append(_energy_shape(fl, f, v, d.at, depth + 1))
        if parts:
            return "|".join(sorted(set(parts)))
        return "E"
    # structural shape: scaling (BinOp), slicing and array wrappers are kept; the leaf source
    # (a table lookup, an API call) is abstracted to S
    if isinstance(e, ast.BinOp):
        return f"({_energy_shape(fl, f, e.left, at, depth)} {type(e.op).__name__} {_energy_shape(fl, f, e.right, at, depth)})"
    if isinstance(e, ast.UnaryOp):
        return f"{type(e.op).__name__}({_energy_shape(fl, f, e.operand, at, depth)})"
    if isinstance(e, ast.Subscript) and isinstance(e.slice, ast.Slice):
        return _energy_shape(fl, f, e.value, at, depth) + "[" + ast.unparse(e.slice) + "]"
    if isinstance(e, ast.Call) and last_name(e) in ("array", "asarray", "list", "float") and e.args:
        return f"{last_name(e)}({_energy_shape(fl, f, e.args[0], at, depth)})"
    if isinstance(e, ast.Constant):
        return repr(e.value)
    if isinstance(e, (ast.Subscript, ast.Call)):
        return "S"
    if isinstance(e, ast.Attribute):
        return "S" if re.search(r"(ekin|vpot|kin|pot|energy)", ast.unparse(e)) else ast.unparse(e)
    return ast.unparse(e)


def r117(ctx):
    """The two energies stored with a path are produced alike: in every engine the arguments of
    path.update_energies(ekin, vpot) have the same construction up to the kinetic/potential key
    (same scaling by the particle number, same slicing, same source table). QuanTIS compares
    potential energies of frames across engines and paths: a per-particle value next to a
    total one changes the acceptance probability."""
    rid = "R-11.7"
    from ..util import CP2K, GROMACS, LAMMPS, TURTLE
    n = 0
    for rel in (GROMACS, CP2K, LAMMPS, ASE, TURTLE):
        for m, q, f in ctx.tree.all_funcs([rel]):
            if f.name != "_propagate_from":
                continue
            calls = [c for c in walk_local(f) if isinstance(c, ast.Call) and isinstance(c.func, ast.Attribute) and c.func.attr == "update_energies" and len(c.args) == 2]
            if not calls:
                ctx.bad(rid, f, f"{q} stores no energies with the path", construct=f"{q}: no update_energies")
                continue
            fl = flow_of(f)
            for c in calls:
                n += 1
                at = fl.cfg.node_of(c)
                a, b = (_energy_shape(fl, f, x, at) for x in c.args)
                if a == b:
                    ctx.ok(rid, c, f"{q}: kinetic and potential energies are built alike ({a[:60]})")
                else:
                    ctx.bad(rid, c, f"{q}: the kinetic energy is built as `{a[:70]}` but the potential energy as `{b[:70]}`: one of them is scaled / sliced / sourced differently (per particle vs total), so the potential energies that the QuanTIS rule compares are not the system's", construct=f"{q}: update_energies argument shapes differ")
    if n < 5:
        raise AnalysisError(f"R-11.7: only {n} update_energies calls found in the engines (expected 5)")


def _engine_level(fl, e, at, depth=0):
    """-1 / 0 when e resolves to engines[-1][0] ([0-] level) / engines[0][0] ([0+] level)."""
    if depth > 6:
        return None
    if isinstance(e, ast.Subscript):
        t = ast.unparse(e).replace(" ", "")
        if t == "engines[-1][0]":
            return -1
        if t == "engines[0][0]":
            return 0
    for kind, node, sat, extra in fl.sources(e, at):
        if kind == "expr" and node is not e and isinstance(node, ast.AST):
            r = _engine_level(fl, node, sat, depth + 1)
            if r is not None:
                return r
        if kind in ("param", "free"):
            t = str(extra).replace(" ", "")
            if t == "engines[-1][0]":
                return -1
            if t == "engines[0][0]":
                return 0
    return None


def _beta_levels(fl, e, at, depth=0):
    """Levels of the engines whose .beta an expression contains (through local aliases)."""
    out = set()
    if depth > 4:
        return out
    for x in ast.walk(e):
        if isinstance(x, ast.Attribute) and x.attr == "beta":
            lv = _engine_level(fl, x.value, at)
            out.add(lv if lv is not None else "?")
        elif isinstance(x, ast.Name):
            for kind, node, sat, extra in fl.sources(x, at):
                if kind == "expr" and isinstance(node, ast.Attribute) and node.attr == "beta":
                    lv = _engine_level(fl, node.value, sat)
                    out.add(lv if lv is not None else "?")
                elif kind.startswith("sub:") and str(extra) == ".beta" and hasattr(node, "value") and isinstance(node.value, ast.AST):
                    lv = _engine_level(fl, node.value, node.at)
                    out.add(lv if lv is not None else "?")
                elif kind in ("param", "free") and str(extra).replace(" ", "").endswith(".beta"):
                    t = str(extra).replace(" ", "")[: -len(".beta")]
                    out.add(-1 if t == "engines[-1][0]" else 0 if t == "engines[0][0]" else "?")
    return out


def r116(ctx):
    """Shape of the QuanTIS acceptance rule: pacc = min(1, exp(<[0-] term> - <[0+] term>)), the
    move is rejected exactly on the failing side of `rand <= pacc` (unless accept_all), and rand
    is a draw from the job stream."""
    rid = "R-11.6"
    f = ctx.tree.func(TIS, "quantis_swap_zero")
    fl = flow_of(f)
    cfg = fl.cfg
    pdefs = [st for st in walk_local(f) if isinstance(st, ast.Assign) and isinstance(st.targets[0], ast.Name) and isinstance(st.value, ast.Call) and last_name(st.value) in ("min", "max", "exp") and any(isinstance(x, ast.Call) and last_name(x) == "exp" for x in ast.walk(st.value))]
    if len(pdefs) != 1:
        raise AnalysisError("R-11.6: exactly one definition of pacc expected in quantis_swap_zero")
    st = pdefs[0]
    pname = st.targets[0].id
    v = st.value
    okshape = False
    why = "not min(1, exp(...))"
    if isinstance(v, ast.Call) and last_name(v) == "min" and len(v.args) == 2:
        one = [a for a in v.args if isinstance(a, ast.Constant) and a.value == 1]
        ex = [a for a in v.args if isinstance(a, ast.Call) and last_name(a) == "exp" and len(a.args) == 1]
        if one and ex:
            arg = ex[0].args[0]
            if isinstance(arg, ast.BinOp) and isinstance(arg.op, ast.Sub):
                at = cfg.node_of(st)
                if _beta_levels(fl, arg.left, at) == {-1} and _beta_levels(fl, arg.right, at) == {0}:
                    okshape = True
                else:
                    why = f"exponent `{short(arg, 60)}` is not <[0-] term with engine0.beta> - <[0+] term with engine1.beta>"
            else:
                why = f"exponent `{short(arg, 60)}` is not a difference of the two levels' terms"
    if okshape:
        ctx.ok(rid, st, "pacc = min(1, exp(beta0*dV0 - beta1*dV1))")
    else:
        ctx.bad(rid, st, f"the QuanTIS acceptance probability is not min(1, exp(beta0*dV0 - beta1*dV1)): {why}", construct="pacc = " + short(v, 70))
    # rejection on the failing side of rand <= pacc
    rets = [r for r in walk_local(f) if isinstance(r, ast.Return) and isinstance(r.value, ast.Tuple) and isinstance(r.value.elts[0], ast.Constant) and r.value.elts[0].value is False]
    qea = None
    for r in rets:
        g = cfg.guards(cfg.node_of(r))
        for e, t, bn in g:
            if isinstance(e, ast.Compare) and pname in [x.id for x in ast.walk(e) if isinstance(x, ast.Name)]:
                qea = (r, e, t)
    if qea is None:
        ctx.bad(rid, st, "no rejection of quantis_swap_zero depends on a comparison with pacc: the energy rule is not applied", construct="pacc unused for rejection")
    else:
        r, e, t = qea
        # normalise to <draw> OP <pacc>
        op_ = e.ops[0]
        l_is_p = isinstance(e.left, ast.Name) and e.left.id == pname
        if l_is_p:
            op_ = {ast.Lt: ast.Gt, ast.LtE: ast.GtE, ast.Gt: ast.Lt, ast.GtE: ast.LtE}.get(type(op_), type(op_))()
        accept_when_true = isinstance(op_, ast.LtE)
        reject_when_true = isinstance(op_, ast.Gt)
        if (accept_when_true and t is False) or (reject_when_true and t is True):
            ctx.ok(rid, e, "rejected exactly when the drawn number exceeds pacc (accepted when it is at most pacc)")
        else:
            ctx.bad(rid, e, f"the zero swap is rejected on the {'true' if t else 'false'} side of `{short(e, 30)}`: not 'accept exactly when the drawn number is at most pacc'", construct="acceptance test " + short(e, 30))
        rn = [x for x in ast.walk(e) if isinstance(x, ast.Name) and x.id != pname]
        okd = False
        for x in rn:
            for kind, node, at, extra in fl.sources(x, cfg.node_of(r)):
                if kind == "expr" and isinstance(node, ast.Call) and isinstance(node.func, ast.Attribute) and node.func.attr == "random" and "rgen" in ast.unparse(node.func.value):
                    okd = True
        if okd:
            ctx.ok(rid, e, "the number compared with pacc is one draw rgen.random() of the job stream")
        else:
            ctx.bad(rid, e, "the number compared with pacc is not a uniform draw from the job's stream", construct="acceptance draw")


def r118(ctx):
    """A propagation that ran out of frames is recognised by the QuanTIS swap. The swap ignores the
    success flag of engine.propagate and tells an unfinished trajectory only from the length of
    the pasted path. With a prefix of k frames (created with maxlen=k), a propagation budget B
    (maxlen of the path handed to propagate) and one shared frame, a truncated propagation gives
    k + B - 1 frames; the length test that sets the rejecting status must fire for exactly that
    value (linear arithmetic over the symbols maxlen0 / maxlen1)."""
    from ..flow import deref
    rid = "R-11.8"
    tree = ctx.tree
    f = tree.func(TIS, "quantis_swap_zero")
    fl = flow_of(f)
    cfg = fl.cfg
    pp = tree.func("infretis/classes/path.py", "paste_paths")
    pparams = [a.arg for a in pp.args.args]
    ov_default = None
    if "overlap" in pparams:
        di = pparams.index("overlap") - (len(pparams) - len(pp.args.defaults))
        if 0 <= di < len(pp.args.defaults) and isinstance(pp.args.defaults[di], ast.Constant):
            ov_default = bool(pp.args.defaults[di].value)

    created = {}  # path name -> list of maxlen expressions it was created with
    for n in walk_local(f):
        if isinstance(n, ast.Assign) and len(n.targets) == 1 and isinstance(n.targets[0], ast.Name) and isinstance(n.value, ast.Call) and last_name(n.value) == "empty_path":
            ml = kwarg(n.value, "maxlen", 0)
            created.setdefault(n.targets[0].id, []).append((n, ml))

    def lin(e, at, depth=0):
        if depth > 6 or e is None:
            return None
        if isinstance(e, ast.Constant) and isinstance(e.value, int) and not isinstance(e.value, bool):
            return {1: e.value}
        if isinstance(e, ast.Name):
            ds = [d for d in fl.defs if d.path == e.id and d.kind == "assign" and d.value is not None]
            if len(ds) == 1 and "maxlength" in ast.unparse(ds[0].value):
                return {e.id: 1}
            e2, at2 = deref(fl, e, at)
            if e2 is not e:
                return lin(e2, at2, depth + 1)
            return None
        if isinstance(e, ast.Attribute) and e.attr == "length" and isinstance(e.value, ast.Name) and e.value.id in created:
            cs = {ast.unparse(ml) for _, ml in created[e.value.id] if ml is not None}
            if len(cs) == 1:
                k = lin(created[e.value.id][0][1], at, depth + 1)
                if k is not None and set(k) <= {1}:
                    return k  # a prefix created with a constant limit and filled to it
            return None
        if isinstance(e, ast.BinOp) and isinstance(e.op, (ast.Add, ast.Sub)):
            a, b = lin(e.left, at, depth + 1), lin(e.right, at, depth + 1)
            if a is None or b is None:
                return None
            sg = 1 if isinstance(e.op, ast.Add) else -1
            out = dict(a)
            for k, v in b.items():
                out[k] = out.get(k, 0) + sg * v
            return {k: v for k, v in out.items() if v != 0}
        return None

    def path_name(e, at=None):
        if isinstance(e, ast.Name):
            if e.id not in created and at is not None:
                e2, _ = deref(fl, e, at)
                if e2 is not e:
                    return path_name(e2, None)
            return e.id
        if isinstance(e, ast.Call) and isinstance(e.func, ast.Attribute) and e.func.attr in ("reverse", "copy") and isinstance(e.func.value, ast.Name):
            return e.func.value.id
        return None

    props = {}  # path name -> propagate call
    for c in [c for c in walk_local(f) if isinstance(c, ast.Call) and last_name(c) == "propagate" and c.args]:
        nm = path_name(c.args[0])
        if nm:
            props[nm] = c
    n = 0
    for st in [x for x in walk_local(f) if isinstance(x, ast.Assign) and isinstance(x.value, ast.Call) and last_name(x.value) == "paste_paths" and len(x.value.args) >= 2 and isinstance(x.targets[0], ast.Name)]:
        c = st.value
        a0, a1 = path_name(c.args[0], cfg.node_of(st)), path_name(c.args[1], cfg.node_of(st))
        def const_limit(nm):
            return nm in created and all(isinstance(ml, ast.Constant) and isinstance(ml.value, int) for _, ml in created[nm])
        pre = [x for x in (a0, a1) if x in created and const_limit(x)]
        bud = [x for x in (a0, a1) if x in props and x in created and x not in pre]
        if len(bud) != 1 or len(pre) != 1:
            continue
        at = cfg.node_of(st)
        ovv = kwarg(c, "overlap", 2)
        ov = ov_default if ovv is None else (bool(ovv.value) if isinstance(ovv, ast.Constant) else None)
        # the budget: the creation of the budgeted path that reaches the propagate call
        pn = cfg.node_of(props[bud[0]])
        bdefs = [(cn, ml) for cn, ml in created[bud[0]] if cfg.reaches(cfg.node_of(cn), pn)]
        Bs = {ast.unparse(ml) for _, ml in bdefs if ml is not None}
        if len(Bs) != 1 or ov is None:
            raise AnalysisError("R-11.8: budget / overlap of a pasted propagation in quantis_swap_zero could not be resolved")
        Bl = lin(bdefs[0][1], cfg.node_of(bdefs[0][0]))
        kl = lin(ast.Attribute(value=ast.Name(id=pre[0], ctx=ast.Load()), attr="length", ctx=ast.Load()), at)
        if Bl is None or kl is None:
            raise AnalysisError(f"R-11.8: budget `{Bs}` or prefix length of `{pre[0]}` is not linear in the length limits")
        total = dict(Bl)
        for k, v in kl.items():
            total[k] = total.get(k, 0) + v
        total[1] = total.get(1, 0) - (1 if ov else 0)
        total = {k: v for k, v in total.items() if v != 0}
        # the rejecting length test on the pasted path
        tgt = st.targets[0].id
        tests = [x for x in walk_local(f) if isinstance(x, ast.Compare) and len(x.ops) == 1 and isinstance(x.ops[0], (ast.Eq, ast.GtE, ast.Gt, ast.LtE, ast.Lt))
                 and any(isinstance(y, ast.Attribute) and y.attr == "length" and isinstance(y.value, ast.Name) and y.value.id == tgt for y in (x.left, x.comparators[0]))
                 and cfg.reaches(at, cfg.node_of(x))]
        big = []
        for x in tests:
            other = x.comparators[0] if (isinstance(x.left, ast.Attribute) and x.left.attr == "length") else x.left
            T = lin(other, cfg.node_of(x))
            if T is not None and any(k != 1 for k in T):
                big.append((x, T))
        if not big:
            ctx.bad(rid, st, f"the path pasted from `{pre[0]}` and the propagated `{bud[0]}` is never compared with the length limit: a propagation that ran out of frames is accepted", construct=f"quantis_swap_zero: no length test on {tgt}")
            n += 1
            continue
        x, T = big[0]
        n += 1
        diff = dict(total)
        for k, v in T.items():
            diff[k] = diff.get(k, 0) - v
        diff = {k: v for k, v in diff.items() if v != 0}
        op = x.ops[0]
        length_left = isinstance(x.left, ast.Attribute) and x.left.attr == "length"
        # truncated length L* = T + d ; the test `length OP T` must hold for L*
        d = diff.get(1, 0) if set(diff) <= {1} else None
        if d is None:
            raise AnalysisError(f"R-11.8: truncated length {total} and tested limit {T} differ by a non-constant")
        if not length_left:
            op = {ast.Lt: ast.Gt, ast.Gt: ast.Lt, ast.LtE: ast.GtE, ast.GtE: ast.LtE, ast.Eq: ast.Eq}[type(op)]()
        fires = {ast.Eq: d == 0, ast.GtE: d >= 0, ast.Gt: d > 0, ast.LtE: False, ast.Lt: False}[type(op)]
        if fires:
            ctx.ok(rid, x, f"a propagation of `{bud[0]}` that used up its budget gives a pasted path of {total} frames, for which `{short(x, 40)}` fires: the unfinished trajectory is rejected")
        else:
            ctx.bad(rid, x, f"`{bud[0]}` is propagated with the budget {Bl} and pasted to the {kl.get(1, '?')}-frame prefix `{pre[0]}` (one shared frame): a propagation that ran out of frames gives {total} frames, for which the rejecting test `{short(x, 40)}` does not fire - the swap ignores propagate's success flag, so a trajectory that stops between the interfaces is accepted as a valid path", construct=f"quantis_swap_zero: budget of {bud[0]} vs length test on {tgt}")
    if n < 2:
        raise AnalysisError(f"R-11.8: only {n} pasted propagations found in quantis_swap_zero (expected 2)")


ENGBASE_REL = "infretis/classes/engines/enginebase.py"

def r1111(ctx):
    """Two engine objects can propagate in one worker directory within one job (QuanTIS runs a
    one-step propagation on engine0 and on engine1 with the same ensemble name), so the name of a
    propagation's trajectory file must be unique per *process*, not per engine object: the running
    number in the name handed to _propagate_from comes from process-wide state (a module-level
    counter function / itertools.count), never from an attribute of the engine instance."""
    rid = "R-11.11"
    tree = ctx.tree
    f = tree.func(ENGBASE_REL, "EngineBase.propagate")
    fl = flow_of(f)
    calls = [c for c in walk_local(f) if isinstance(c, ast.Call) and is_self_attr(c.func, "_propagate_from")]
    if not calls:
        raise AnalysisError("R-11.11: EngineBase.propagate does not call self._propagate_from")
    mod = tree.modules[ENGBASE_REL]
    process_wide = set()
    for q, g in mod.funcs.items():
        if "." in q:
            continue
        own_attr = any(isinstance(t, ast.Attribute) and isinstance(t.value, ast.Name) and t.value.id == g.name for st in walk_local(g) if isinstance(st, (ast.Assign, ast.AugAssign)) for t in (st.targets if isinstance(st, ast.Assign) else [st.target]))
        glob = any(isinstance(st, ast.Global) for st in walk_local(g))
        nxt = any(isinstance(c, ast.Call) and last_name(c) == "next" for c in walk_local(g))
        if own_attr or glob or nxt:
            process_wide.add(g.name)
    for c in calls:
        if not c.args:
            raise AnalysisError("R-11.11: _propagate_from called without the trajectory name")
        deps = fl.deps(c.args[0], fl.cfg.node_of(c))
        called = {key.split(".")[-1].split("(")[0] for k, key in deps if k == "call"}
        inst = sorted(key for k, key in deps if k in ("free", "param") and key.startswith("self.") and key not in ("self.exe_dir",))
        if called & process_wide or any(k == "call" and key.split("(")[0] in ("next",) for k, key in deps):
            ctx.ok(rid, c, f"the trajectory name carries a running number from the process-wide counter {sorted(called & process_wide) or ['next(...)']}: unique for every propagation of the process")
        else:
            ctx.bad(rid, c, f"the trajectory name handed to _propagate_from has no process-wide running number (it depends on {inst or 'no counter at all'}): two engine objects used by one job in the same worker directory - the one-step propagations of a QuanTIS swap on engine0 and engine1 - produce the same file name when they have propagated equally often; the second run appends to the first run's file and its frames are recorded as frames 0, 1 of that file, i.e. the other engine's configurations", construct="propagate: trajectory name without process-wide counter")


def r1116(ctx):
    """The high-acceptance test of the zero swap compares the weight of the *new* upper path with
    that of the *old* one: high_acc_swap(paths, ...) forms (weights after the exchange) / (weights
    before) from paths[0] and paths[1], so at the zero-swap call site paths[0] is the path generated
    by this move and paths[1] the path the job was handed (picked[...]["traj"]). Exchanged, the
    acceptance probability is the inverse ratio."""
    rid = "R-11.16"
    n = 0
    for fname in ("retis_swap_zero", "quantis_swap_zero"):
        if not ctx.tree.has_func(TIS, fname):
            continue
        f = ctx.tree.func(TIS, fname)
        fl = flow_of(f)
        for c in [x for x in walk_local(f) if isinstance(x, ast.Call) and last_name(x) == "high_acc_swap" and x.args]:
            lst = c.args[0]
            at = fl.cfg.node_of(c)
            if isinstance(lst, ast.Name):
                lst, at2 = deref(fl, lst, at)
            if not (isinstance(lst, (ast.List, ast.Tuple)) and len(lst.elts) == 2):
                raise AnalysisError(f"R-11.16: the paths handed to high_acc_swap in {fname} are not a two-element list (cannot decide)")
            n += 1

            def handed_in(e):
                """does the value come from the job's input paths (picked[k]["traj"])?"""
                seen, work = set(), [(e, at)]
                while work:
                    x, xat = work.pop()
                    if isinstance(x, ast.Subscript) and isinstance(x.slice, ast.Constant) and x.slice.value == "traj" and "picked" in ast.unparse(x.value):
                        return True
                    if isinstance(x, ast.Name):  # plain aliases only: a path *built from* an input path is a new path
                        for d, sfx in fl.rd(x.id, xat):
                            if not sfx and id(d) not in seen and isinstance(d.value, ast.AST) and d.kind == "assign":
                                seen.add(id(d))
                                work.append((d.value, d.at))
                return False

            new_is_old, old_is_old = handed_in(lst.elts[0]), handed_in(lst.elts[1])
            if not new_is_old and old_is_old:
                ctx.ok(rid, c, f"{fname}: high_acc_swap receives [path generated by the move, path the job was handed]")
            else:
                ctx.bad(rid, c, f"{fname} hands high_acc_swap `{short(lst, 40)}`: paths[0] must be the path generated by this move and paths[1] the old path the job was handed (picked[...]['traj']); exchanged, the swap is accepted with probability w(old)/w(new) instead of w(new)/w(old) - swaps that must be rejected pass, a new path with weight 0 is always accepted",
                        construct=f"{fname}: high_acc_swap({short(lst, 40)}, ...)")
    if n == 0:
        raise AnalysisError("R-11.16: no call of high_acc_swap in the zero-swap functions")


def run(ctx):
    ctx.rule("R-11.16", "the high-acceptance test of a zero swap is w(new)/w(old): at the call site paths[0] is the path generated by the move, paths[1] the path the job was handed", floor=1)
    ctx.attempt(r1116, ctx)
    ctx.rule("R-11.15", "the high-acceptance rule of a zero swap is evaluated on weights computed from the paths at hand: high_acc_swap computes all four weights (each path in each ensemble) with compute_weight - a cached Path.weight does not survive copy / store / reverse (shared with C09 R-9.17)", floor=4)
    from . import c09 as _c09o
    from .shared import RuleProxy as _RP11o
    ctx.attempt(_c09o.r917, _RP11o(ctx, "R-11.15", " (the weight of a path handed over by the scheduler is 0.0 after Path.copy / PathStorage.output: the division guard sets the acceptance probability to 1 and every zero swap that reaches the test is accepted whatever the draw)"))
    ctx.rule("R-11.14", "the QuanTIS acceptance rule is evaluated on the energies of the exchanged configurations: every stored frame carries the energy of its own configuration (one energy entry per stored frame in the in-process engines; shared with C12 R-12.24)", floor=2)
    from . import c12 as _c12n
    ctx.attempt(_c12n.energies_per_frame, ctx, "R-11.14", " - quantis_swap_zero reads V0 / V1 from interior frames of the old paths and accepts or rejects the swap on energy differences of other configurations")
    ctx.rule("R-11.4", "QuanTIS acceptance: each energy difference is weighted with the beta of the engine of its own level", floor=2)
    ctx.rule("R-11.5", "the engines' velocity-reversal codecs negate exactly the velocities (shared with C19 R-19.5): time reversal used by the zero swap is an involution", floor=5)
    ctx.rule("R-11.7", "the kinetic and the potential energy stored with a path are constructed alike in every engine (scaling, slicing, source table) - the potential energies QuanTIS compares are system totals", floor=5)
    ctx.rule("R-11.6", "shape of the QuanTIS rule: pacc = min(1, exp(beta0*dV0 - beta1*dV1)); rejected exactly when the job-stream draw exceeds pacc", floor=3)
    ctx.rule("R-11.1", "lambda_-1 early rejection precedes any engine call; quantis + lambda_-1 excluded by configuration", floor=3)
    ctx.rule("R-11.2", "the crossing frames are taken from the right ends of the old paths, as copies, on the right side of the propagated segments", floor=5)
    ctx.rule("R-11.3", "zero swap only when the partner is idle; flag <=> status in both swap functions (shared rules)", floor=10)
    ctx.attempt(r111, ctx)
    ctx.attempt(r112, ctx)
    ctx.attempt(r113, ctx)
    ctx.attempt(r114, ctx)
    ctx.attempt(r116, ctx)
    ctx.attempt(r117, ctx)
    ctx.rule("R-11.8", "QuanTIS swap: a propagation that used up its frame budget yields a pasted path for which the rejecting length test fires (prefix + budget - shared frame vs the limit, linear arithmetic)", floor=2)
    ctx.attempt(r118, ctx)
    ctx.rule("R-11.9", "the potential energies the QuanTIS rule reads from stored frames are the ones that were written: energy.txt columns reach update_energies in its parameter order (shared with C14 R-14.2)", floor=3)
    from . import c14 as _c14
    from .shared import RuleProxy as _RP2
    ctx.attempt(_c14.r142, _RP2(ctx, "R-11.9", " (for paths reloaded at a restart the QuanTIS energy differences are computed from kinetic energies: the swap is not accepted with min(1, exp(beta0*dV0 - beta1*dV1)))"))
    ctx.rule("R-11.10", "each half of a zero swap runs on the engine of its own ensemble: the per-ensemble engine table handed to the move is built from that ensemble's entry of simulation.ensemble_engines", floor=1)
    from .shared import per_ensemble_engine_table
    ctx.attempt(per_ensemble_engine_table, ctx, "R-11.10", " (the new [0+] path is continued with the [0-] dynamics and the QuanTIS rule evaluated with the wrong potential and beta: swapping twice does not restore the sequences)")
    ctx.rule("R-11.13", "a zero-swap half that reaches no interface delivers maxlen frames, so the length test of the swap rejects it: every engine runs path.maxlen * subcycles MD steps (shared with C12 R-12.14)", floor=5)
    from . import c12 as _c12
    from .shared import RuleProxy as _RP11
    ctx.attempt(_c12.r1214, _RP11(ctx, "R-11.13", " (retis_swap_zero / quantis_swap_zero judge completeness from the path length alone: a cut-off half is accepted with status ACC, the new [0-] path does not start right of lambda_0 and swapping twice does not restore the paths)"))
    ctx.rule("R-11.12", "the crossing frames of a zero swap are addressed by (file, index) with index 0 being a frame: no truthiness test of a frame index (shared with C12 R-12.12)", floor=5)
    from .shared import frame_index_truthiness
    ctx.attempt(frame_index_truthiness, ctx, "R-11.12", ["infretis/classes/engines/gromacs.py", "infretis/classes/engines/cp2k.py", "infretis/classes/engines/lammps.py", TURTLE, ASE, ENGBASE_REL], " (the frames a zero swap has just created sit at index 0 of their files: the whole multi-frame file is dumped instead and engines that read the last image continue from the wrong configuration)")
    ctx.rule("R-11.11", "trajectory file names are unique per process (process-wide running number): the two one-step propagations of a QuanTIS swap on two engine objects never share a file", floor=1)
    ctx.attempt(r1111, ctx)
    from . import c19
    from .shared import RuleProxy
    ctx.attempt(c19.r195, RuleProxy(ctx, "R-11.5", " (a zero swap re-uses stored velocities in the opposite time direction: swapping twice would not restore the order-parameter sequence)"))


VARIANTS = [
    B("c11-high-acceptance-paths-exchanged", "infretis/core/tis.py", "                [path1, path_old1],\n", "                [path_old1, path1],\n", "R-11.16", control=True, why="seeded C11_p"),
    K("c11-keep-high-acceptance-paths-in-a-local", "infretis/core/tis.py", "            accept, status = high_acc_swap(\n                [path1, path_old1],\n", "            new_and_old = [path1, path_old1]\n            accept, status = high_acc_swap(\n                new_and_old,\n"),
    B("c11-old-weight-from-the-path-attribute", "infretis/core/tis.py", "    c2_old = compute_weight(paths[1], intf1, ens_moves[1])", "    c2_old = paths[1].weight", "R-11.15", control=True, why="seeded C11_o"),
    B("c11-ase-energy-per-md-step", ASE, "            if (i) % (self.subcycles) == 0:\n                ekin.append(atoms.get_kinetic_energy())\n                vpot.append(self.calc.results[\"energy\"])\n", "            ekin.append(atoms.get_kinetic_energy())\n            vpot.append(energy)\n            if (i) % (self.subcycles) == 0:\n", "R-11.14", control=True, why="seeded C11_n"),
    B("c11-turtle-budget-without-subcycles", TURTLE, "steps=path.maxlen * self.subcycles,", "steps=path.maxlen,", "R-11.13", control=True, why="seeded C11_m"),
    B("c11-dump-config-index-by-truthiness", ENGBASE_REL, "        if idx is None:", "        if not idx:", "R-11.12", control=True, why="seeded C11_l"),
    K("c11-keep-process-counter-itertools", ENGBASE_REL, 'str(counter())\n', 'str(next(_PROPAGATIONS))\n', also=[(ENGBASE_REL, "def counter():\n", "import itertools\n_PROPAGATIONS = itertools.count()\n\n\ndef counter():\n")]),
    K("c11-keep-process-counter-global", ENGBASE_REL, "    counter.count = 0 if not hasattr(counter, \"count\") else counter.count + 1\n    return counter.count\n", "    global _N_PROP\n    _N_PROP += 1\n    return _N_PROP\n\n\n_N_PROP = -1\n"),
    B("c11-propagation-number-per-engine", ENGBASE_REL, 'ens_set["ens_name"] + "_" + str(os.getpid()) + "_" + str(counter())', 'ens_set["ens_name"] + "_" + str(os.getpid()) + "_" + str(id(self) % 7)', "R-11.11", control=True, why="seeded C11_k"),
    B("c11-engine-table-job-wide", REPEX, "                eng: eng_idx[eng] for eng in ens_engs[ens_num + 1]", "                eng: eng_idx[eng] for eng in eng_names", "R-11.10", control=True, why="seeded C11_j"),
    B("c11-engine-table-other-ensemble", REPEX, "                eng: eng_idx[eng] for eng in ens_engs[ens_num + 1]", "                eng: eng_idx[eng] for eng in ens_engs[ens_num]", "R-11.10"),
    K("c11-keep-engine-table-through-local", REPEX, "            md_items[\"picked\"][ens_num][\"eng_idx\"] = {\n                eng: eng_idx[eng] for eng in ens_engs[ens_num + 1]\n            }", "            own = ens_engs[ens_num + 1]\n            md_items[\"picked\"][ens_num][\"eng_idx\"] = {eng: eng_idx[eng] for eng in own}"),
    B("c11-loaded-energies-swapped", "infretis/classes/path.py", '                energy["data"]["ekin"], energy["data"]["vpot"]', '                energy["data"]["vpot"], energy["data"]["ekin"]', "R-11.9", control=True, why="seeded C11_h (= C06_d)"),
    B("c11-quantis-forward-budget-one-short", TIS, "    new_path1 = tmp_path1.empty_path(maxlen=maxlen1 - 1)", "    new_path1 = tmp_path1.empty_path(maxlen=maxlen1 - tmp_path1.length)", "R-11.8", control=True, why="seeded C11_g"),
    B("c11-quantis-backward-budget-short", TIS, "    new_path0 = tmp_path0.empty_path(maxlen=maxlen0 - 1)", "    new_path0 = tmp_path0.empty_path(maxlen=maxlen0 - 2)", "R-11.8"),
    K("c11-keep-quantis-budget-respelled", TIS, "    new_path1 = tmp_path1.empty_path(maxlen=maxlen1 - 1)", "    new_path1 = tmp_path1.empty_path(maxlen=maxlen1 - tmp_path1.length + 1)"),
    B("c11-turtle-vpot-per-particle", TURTLE, "        vpot = np.array(thermo[\"vpot\"]) * tmd_system.particles.npart", "        vpot = np.array(thermo[\"vpot\"])", "R-11.7", control=True, why="seeded C11_d"),
    B("c11-lammps-vpot-unsliced", LAMMPS, "        path.update_energies(ekin[:end], vpot[:end])", "        path.update_energies(ekin[:end], vpot)", "R-11.7"),
    B("c11-quantis-exponent-sum", TIS, "    pacc = min(1.0, np.exp(deltaV0 * engine0.beta - deltaV1 * engine1.beta))", "    pacc = min(1.0, np.exp(deltaV0 * engine0.beta + deltaV1 * engine1.beta))", "R-11.6", control=True),
    B("c11-quantis-max", TIS, "    pacc = min(1.0, np.exp(deltaV0 * engine0.beta - deltaV1 * engine1.beta))", "    pacc = max(1.0, np.exp(deltaV0 * engine0.beta - deltaV1 * engine1.beta))", "R-11.6"),
    B("c11-quantis-terms-exchanged", TIS, "    pacc = min(1.0, np.exp(deltaV0 * engine0.beta - deltaV1 * engine1.beta))", "    pacc = min(1.0, np.exp(deltaV1 * engine1.beta - deltaV0 * engine0.beta))", "R-11.6"),
    B("c11-quantis-test-inverted", TIS, "    elif rand <= pacc:", "    elif rand >= pacc:", "R-11.6"),
    K("c11-keep-quantis-test-flipped", TIS, "    elif rand <= pacc:", "    elif pacc >= rand:"),
    B("c11-ase-reverse-momenta-mixup", ASE, "        vel = atoms.get_velocities()\n        atoms.set_velocities(-vel)\n        write(outfile, atoms)", "        atoms.set_momenta(-atoms.get_velocities())\n        write(outfile, atoms)", "R-11.5", control=True, why="seeded C11_c"),
    B("c11-early-reject-after-propagate", TIS, '    # if lambda_minus_one, reject early if path_old0\n    if set(ens_set0["start_cond"]) == set(["L", "R"]):\n        if path_old0.check_interfaces(ens_set0["interfaces"])[1] == "L":\n            return False, [path_old0, path_old1], "0-L"\n', "", "R-11.1", control=True,
      also=[(TIS, '    path0 = path_tmp.empty_path(maxlen=maxlen0)\n    for phasepoint in reversed(path_tmp.phasepoints):', '    if set(ens_set0["start_cond"]) == set(["L", "R"]):\n        if path_old0.check_interfaces(ens_set0["interfaces"])[1] == "L":\n            return False, [path_old0, path_old1], "0-L"\n    path0 = path_tmp.empty_path(maxlen=maxlen0)\n    for phasepoint in reversed(path_tmp.phasepoints):')]),
    B("c11-early-reject-removed", TIS, '        if path_old0.check_interfaces(ens_set0["interfaces"])[1] == "L":\n            return False, [path_old0, path_old1], "0-L"\n', '        if path_old0.check_interfaces(ens_set0["interfaces"])[1] == "L":\n            logger.info("0-L")\n', "R-11.1"),
    B("c11-quantis-lambda-allowed", SETUP, "    if quantis and lambda_minus_one is not False:\n        raise TOMLConfigError(\"Cannot run quantis with lambda_minus_one!\")", "    if quantis and lambda_minus_one is not False:\n        logger.info(\"quantis with lambda_minus_one\")", "R-11.1"),
    B("c11-quantis-lambda-truthiness", SETUP, "    if quantis and lambda_minus_one is not False:", "    if quantis and lambda_minus_one:", "R-11.1", why="pre-fix F18.3"),
    B("c11-wrong-second-frame", TIS, "    phase_point = path_old1.phasepoints[1].copy()", "    phase_point = path_old1.phasepoints[2].copy()", "R-11.2", control=True),
    B("c11-forward-from-second-last", TIS, "    system = path_old0.phasepoints[-1].copy()", "    system = path_old0.phasepoints[-2].copy()", "R-11.2"),
    B("c11-second-last-after-segment", TIS, "        path1.append(phase_point)\n        path1 += path_tmp  # Add rest of the path.", "        path1 += path_tmp  # Add rest of the path.\n        path1.append(phase_point)", "R-11.2"),
    B("c11-backward-with-wrong-engine", TIS, "        engine0.propagate(path_tmp, ens_set0, shpt_copy, reverse=True)", "        engine1.propagate(path_tmp, ens_set0, shpt_copy, reverse=True)", "R-11.2"),
    B("c11-backward-not-reversed", TIS, "        engine0.propagate(path_tmp, ens_set0, shpt_copy, reverse=True)", "        engine0.propagate(path_tmp, ens_set0, shpt_copy, reverse=False)", "R-11.2"),
    B("c11-swap-frame-not-copied", TIS, "    phase_point = path_old1.phasepoints[1].copy()", "    phase_point = path_old1.phasepoints[1]", "R-11.2"),
    B("c11-quantis-wrong-frame", TIS, "    shooting_point1 = old_path0.phasepoints[-2].copy()", "    shooting_point1 = old_path0.phasepoints[-1].copy()", "R-11.2"),
    B("c11-old-paths-exchanged", TIS, '    path_old0 = picked[-1]["traj"]\n    path_old1 = picked[0]["traj"]\n    maxlen0 = ens_set0["tis_set"]["maxlength"]\n    maxlen1 = ens_set1', '    path_old0 = picked[0]["traj"]\n    path_old1 = picked[-1]["traj"]\n    maxlen0 = ens_set0["tis_set"]["maxlength"]\n    maxlen1 = ens_set1', "R-11.2"),
    B("c11-idle-tests-swapped", REPEX, "            (ens == self._offset and not self._locks[self._offset - 1])\n            or (ens == self._offset - 1 and not self._locks[self._offset])", "            (ens == self._offset and not self._locks[self._offset])\n            or (ens == self._offset - 1 and not self._locks[self._offset - 1])", "R-11.3", control=True),
    B("c11-swap-accept-with-rejected-status", TIS, '            return False, [path_old0, path_old1], "0-L"', '            return True, [path_old0, path_old1], "0-L"', "R-11.3"),
    B("c11-beta-of-wrong-engine", TIS, "pacc = min(1.0, np.exp(deltaV0 * engine0.beta - deltaV1 * engine1.beta))", "pacc = min(1.0, np.exp(deltaV0 * engine0.beta - deltaV1 * engine0.beta))", "R-11.4", control=True),
    B("c11-beta-hoisted-copy-paste", TIS, "    pacc = min(1.0, np.exp(deltaV0 * engine0.beta - deltaV1 * engine1.beta))", "    beta0 = engine0.beta\n    beta1 = engine0.beta\n    pacc = min(1.0, np.exp(deltaV0 * beta0 - deltaV1 * beta1))", "R-11.4", why="seeded C11_a"),
    B("c11-energy-levels-crossed", TIS, "    deltaV1 = V1_r0 - V1_r1", "    deltaV1 = V0_r0 - V1_r1", "R-11.4"),
    K("c11-keep-beta-hoisted", TIS, "    pacc = min(1.0, np.exp(deltaV0 * engine0.beta - deltaV1 * engine1.beta))", "    beta0 = engine0.beta\n    beta1 = engine1.beta\n    pacc = min(1.0, np.exp(beta0 * deltaV0 - beta1 * deltaV1))"),
    B("c11-early-reject-on-start-point", TIS, 'if path_old0.check_interfaces(ens_set0["interfaces"])[1] == "L":', 'if path_old0.check_interfaces(ens_set0["interfaces"])[0] == "L":', "R-11.1", why="seeded C11_b"),
    K("c11-keep-early-reject-via-end-point", TIS, 'if path_old0.check_interfaces(ens_set0["interfaces"])[1] == "L":', 'if path_old0.get_end_point(ens_set0["interfaces"][0], ens_set0["interfaces"][-1]) == "L":'),
    K("c11-keep-alias-old-path", TIS, "    shpt_copy = path_old1.phasepoints[0].copy()\n    # shpt_copy2", "    first_plus = path_old1\n    shpt_copy = first_plus.phasepoints[0].copy()\n    # shpt_copy2"),
    K("c11-keep-reverse-positional", TIS, "        engine1.propagate(path_tmp, ens_set1, system, reverse=False)", "        engine1.propagate(path_tmp, ens_set1, system)"),
]
