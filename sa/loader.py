"""Parse the target tree and index it. Nothing is imported or executed."""

from __future__ import annotations

import ast
import hashlib
import os
from dataclasses import dataclass, field


class AnalysisError(Exception):
    """The analysis cannot decide (vanished anchor, unknown construct)."""


@dataclass
class Module:
    rel: str
    path: str
    src: str
    tree: ast.Module
    sha: str
    funcs: dict = field(default_factory=dict)  # qualname -> FunctionDef
    classes: dict = field(default_factory=dict)  # name -> ClassDef
    consts: dict = field(default_factory=dict)  # module-level NAME -> expr


FUNC = (ast.FunctionDef, ast.AsyncFunctionDef)
# parsed modules by (absolute path, sha256): unchanged files are shared between
# the tree under analysis and its in-memory variants (their per-function CFG /
# flow caches stay valid because they are keyed by the function object)
_PARSED: dict = {}


_FLIP = {ast.Lt: ast.Gt, ast.Gt: ast.Lt, ast.LtE: ast.GtE, ast.GtE: ast.LtE, ast.Eq: ast.Eq, ast.NotEq: ast.NotEq}


def _constlike(e) -> bool:
    return isinstance(e, ast.Constant) or (isinstance(e, ast.UnaryOp) and isinstance(e.op, ast.USub) and isinstance(e.operand, ast.Constant))


def canon_compares(tree: ast.AST) -> int:
    """Give every binary comparison `a OP b` (OP in < > <= >= == !=) one orientation that does
    not depend on how it was written: a constant goes to the right; otherwise the operand whose
    dump sorts first goes to the left. `b > a` and `a < b` are the same node afterwards, so no
    rule can depend on the orientation chosen by the author. Returns the number of flips."""
    flips = 0
    for n in ast.walk(tree):
        if isinstance(n, ast.Compare) and len(n.ops) == 1 and type(n.ops[0]) in _FLIP:
            l, r = n.left, n.comparators[0]
            cl, cr = _constlike(l), _constlike(r)
            if cl != cr:
                do = cl
            else:
                do = ast.dump(l) > ast.dump(r)
            if do:
                n.left, n.comparators, n.ops = r, [l], [_FLIP[type(n.ops[0])]()]
                # keep positions usable for reports
                flips += 1
    return flips


def split_chained_compares(tree: ast.AST) -> int:
    """`a < b <= c` with pure middle operands (names, constants, attributes) is rewritten to
    `(a < b) and (b <= c)`: a chained comparison and the conjunction it abbreviates are one
    program to the rules (the middle operand has no side effect, so evaluating it twice is
    the same)."""
    import copy as _copy
    n = 0

    class T(ast.NodeTransformer):
        def visit_Compare(self, node):
            nonlocal n
            self.generic_visit(node)
            if len(node.ops) < 2:
                return node
            mids = node.comparators[:-1]
            if not all(isinstance(m, (ast.Name, ast.Constant, ast.Attribute)) for m in mids):
                return node
            parts = []
            left = node.left
            for op, right in zip(node.ops, node.comparators):
                c = ast.Compare(left=_copy.deepcopy(left), ops=[op], comparators=[_copy.deepcopy(right)])
                ast.copy_location(c, node)
                parts.append(c)
                left = right
            n += 1
            b = ast.BoolOp(op=ast.And(), values=parts)
            return ast.copy_location(b, node)

    T().visit(tree)
    ast.fix_missing_locations(tree)
    return n


_PURE_BUILTINS = {"len", "int", "float", "str", "abs", "min", "max", "bool", "tuple", "isinstance"}


def _is_boolish(e) -> bool:
    """Side-effect-free expression that may be inlined into the adjacent test that is its only
    reader: comparisons / boolean combinations / arithmetic over names, attributes, subscripts,
    constants and pure builtins (no other calls, no awaits, no walrus)."""
    for x in ast.walk(e):
        if isinstance(x, ast.Call):
            is_get = isinstance(x.func, ast.Attribute) and x.func.attr == "get" and 1 <= len(x.args) <= 2 and not x.keywords and all(isinstance(a, ast.Constant) for a in x.args)
            if not ((isinstance(x.func, ast.Name) and x.func.id in _PURE_BUILTINS) or is_get):
                return False
        if isinstance(x, (ast.Await, ast.Yield, ast.YieldFrom, ast.NamedExpr, ast.Lambda, ast.ListComp, ast.SetComp, ast.DictComp, ast.GeneratorExp, ast.Starred)):
            return False
    if isinstance(e, ast.Call) and isinstance(e.func, ast.Attribute) and e.func.attr == "get":
        return True  # option = settings.get("key", default) read by the adjacent test
    return isinstance(e, (ast.BoolOp, ast.Compare, ast.BinOp, ast.UnaryOp))


def _is_log_stmt(st) -> bool:
    if isinstance(st, ast.Expr) and isinstance(st.value, ast.Constant):
        return True
    if isinstance(st, ast.Expr) and isinstance(st.value, ast.Call):
        f = st.value.func
        if isinstance(f, ast.Name) and f.id == "print":
            return True
        if isinstance(f, ast.Attribute) and f.attr in ("debug", "info", "warning", "error", "critical"):
            b = f.value
            while isinstance(b, ast.Attribute):
                b = b.value
            return isinstance(b, ast.Name) and b.id in ("logger", "logging", "log")
    return False


def inline_condition_temps(tree: ast.AST) -> int:
    """`cond = <boolean expression>` immediately followed (log statements aside) by an if/while
    whose test is the only reader of `cond`: the test is given the expression itself, so a
    condition extracted into a well-named local and the inline condition are one program to
    the rules. Nothing can change the operands between the two adjacent statements."""
    import copy as _copy
    n_inlined = 0
    for fn in [x for x in ast.walk(tree) if isinstance(x, (ast.FunctionDef, ast.AsyncFunctionDef))]:
        loads = {}
        stores = {}
        for x in ast.walk(fn):
            if isinstance(x, ast.Name):
                (loads if isinstance(x.ctx, ast.Load) else stores).setdefault(x.id, []).append(x)
        for holder in ast.walk(fn):
            for field in ("body", "orelse", "finalbody"):
                b = getattr(holder, field, None)
                if not (isinstance(b, list) and b and isinstance(b[0], ast.stmt)):
                    continue
                for i, st in enumerate(b):
                    if not (isinstance(st, ast.Assign) and len(st.targets) == 1 and isinstance(st.targets[0], ast.Name) and _is_boolish(st.value)):
                        continue
                    nm = st.targets[0].id
                    if len(stores.get(nm, [])) != 1 or len(loads.get(nm, [])) != 1:
                        continue
                    j = i + 1
                    while j < len(b) and _is_log_stmt(b[j]):
                        j += 1
                    if j >= len(b) or not isinstance(b[j], (ast.If, ast.While, ast.Assert)):
                        continue
                    use = loads[nm][0]
                    if not any(y is use for y in ast.walk(b[j].test)):
                        continue

                    class R(ast.NodeTransformer):
                        def visit_Name(self, node):
                            if node is use:
                                return _copy.deepcopy(st.value)
                            return node

                    b[j].test = R().visit(b[j].test)
                    ast.fix_missing_locations(b[j])
                    n_inlined += 1
    return n_inlined


def inline_flag_locals(tree: ast.AST) -> int:
    """A boolean flag that is assigned once (`has_x = x is not False`) and then used in several
    tests is the same program as those tests written out. Every use of such a name *inside a test*
    (if / while / conditional expression / assert) is given the defining expression when
      - the name has exactly one store in the function,
      - the defining expression is side-effect free (comparisons / boolean operators over names,
        attributes, constants and pure builtins), and
      - every local name it mentions has itself exactly one store (parameters: none), so the value
        cannot differ between the definition and the use.
    The assignment itself is kept."""
    import copy as _copy
    n_inlined = 0
    for fn in [x for x in ast.walk(tree) if isinstance(x, (ast.FunctionDef, ast.AsyncFunctionDef))]:
        stores = {}
        for x in ast.walk(fn):
            if isinstance(x, ast.Name) and isinstance(x.ctx, (ast.Store, ast.Del)):
                stores.setdefault(x.id, []).append(x)
            if isinstance(x, (ast.For, ast.AsyncFor, ast.comprehension)):
                for y in ast.walk(x.target):
                    if isinstance(y, ast.Name):
                        stores.setdefault(y.id, []).append(y)
                        stores[y.id].append(y)  # loop variables change: never "single store"
        params = {a.arg for a in fn.args.posonlyargs + fn.args.args + fn.args.kwonlyargs}
        flags = {}
        for st in ast.walk(fn):
            if not (isinstance(st, ast.Assign) and len(st.targets) == 1 and isinstance(st.targets[0], ast.Name)):
                continue
            nm = st.targets[0].id
            if len(stores.get(nm, [])) != 1 or nm in params:
                continue
            v = st.value
            if not (isinstance(v, (ast.Compare, ast.BoolOp)) or (isinstance(v, ast.UnaryOp) and isinstance(v.op, ast.Not))):
                continue
            if not _is_boolish(v):
                continue
            ok = True
            for x in ast.walk(v):
                if isinstance(x, ast.Name) and isinstance(x.ctx, ast.Load):
                    if x.id in params:
                        if stores.get(x.id):
                            ok = False
                    elif len(stores.get(x.id, [])) > 1:
                        ok = False
                if isinstance(x, (ast.Attribute, ast.Subscript)):
                    ok = False  # attribute / item values may change between definition and use
            if ok:
                flags[nm] = v
        if not flags:
            continue

        class R(ast.NodeTransformer):
            def visit_Name(self, node):
                nonlocal n_inlined
                if isinstance(node.ctx, ast.Load) and node.id in flags:
                    n_inlined += 1
                    return ast.copy_location(_copy.deepcopy(flags[node.id]), node)
                return node

        for holder in ast.walk(fn):
            if isinstance(holder, (ast.If, ast.While, ast.IfExp, ast.Assert)):
                holder.test = R().visit(holder.test)
        ast.fix_missing_locations(fn)
    return n_inlined


def _link(tree: ast.AST, mod: Module) -> None:
    """Parent links, module back-pointer and enclosing function qualname."""

    def walk(node, parent, qual):
        node._parent = parent
        node._mod = mod
        node._qual = qual
        q = qual
        if isinstance(node, FUNC + (ast.ClassDef,)):
            q = f"{qual}.{node.name}" if qual else node.name
            if isinstance(node, FUNC):
                mod.funcs[q] = node
                node._fq = q
            else:
                if not qual:
                    mod.classes[node.name] = node
        for child in ast.iter_child_nodes(node):
            walk(child, node, q)

    walk(tree, None, "")


class Tree:
    """All modules below <root>/infretis."""

    PKG = "infretis"

    def __init__(self, root: str, overrides: dict | None = None):
        """overrides: {relative path: replacement source} (in-memory variant)."""
        self.root = os.path.abspath(root)
        self.modules: dict[str, Module] = {}
        self.consulted: set[str] = set()
        overrides = overrides or {}
        pkg = os.path.join(self.root, self.PKG)
        if not os.path.isdir(pkg):
            raise AnalysisError(f"no package directory {pkg}")
        for dirpath, dirnames, filenames in os.walk(pkg):
            dirnames[:] = sorted(d for d in dirnames if d != "__pycache__")
            for fn in sorted(filenames):
                if not fn.endswith(".py"):
                    continue
                path = os.path.join(dirpath, fn)
                rel = os.path.relpath(path, self.root)
                if rel in overrides:
                    raw = overrides[rel].encode("utf-8")
                else:
                    with open(path, "rb") as fh:
                        raw = fh.read()
                sha = hashlib.sha256(raw).hexdigest()
                cached = _PARSED.get((path, sha))
                if cached is not None:
                    self.modules[rel] = cached
                    continue
                try:
                    src = raw.decode("utf-8")
                    tree = ast.parse(src, filename=rel)
                except (SyntaxError, UnicodeDecodeError) as exc:
                    raise AnalysisError(f"cannot parse {rel}: {exc}") from exc
                if os.environ.get("SA_NO_CANON") != "1":
                    split_chained_compares(tree)
                    inline_condition_temps(tree)
                    inline_flag_locals(tree)
                    canon_compares(tree)
                mod = Module(rel, path, src, tree, sha)
                _link(tree, mod)
                for node in ast.walk(tree):
                    if isinstance(node, ast.Match):
                        raise AnalysisError(
                            f"{rel}:{node.lineno}: match statement not modelled"
                        )
                for st in tree.body:
                    if isinstance(st, ast.Assign) and len(st.targets) == 1:
                        t = st.targets[0]
                        if isinstance(t, ast.Name):
                            mod.consts[t.id] = st.value
                    elif isinstance(st, ast.AnnAssign) and st.value is not None:
                        if isinstance(st.target, ast.Name):
                            mod.consts[st.target.id] = st.value
                self.modules[rel] = mod
                _PARSED[(path, sha)] = mod
        if os.environ.get("SA_NO_CANON") != "1":
            self._positional_calls()

    def _positional_calls(self):
        """Calls of repository functions get one argument form: keyword arguments that name the
        next positional parameters are moved into positional position (`f(a, vel=v)` and
        `f(a, v)` are then the same node). Only for names all of whose definitions agree on the
        parameter list and take no *args / positional-only parameters."""
        sigs = {}
        for rel, m in self.modules.items():
            for q, f in m.funcs.items():
                ps = [a.arg for a in f.args.args]
                is_method = "." in q and bool(ps) and ps[0] in ("self", "cls")
                special = bool(f.args.posonlyargs or f.args.vararg)
                sigs.setdefault(f.name, set()).add((tuple(ps[1:] if is_method else ps), is_method, special))
        table = {}
        for name, ss in sigs.items():
            if len(ss) == 1 and not name.startswith("__"):
                ps, is_method, special = next(iter(ss))
                if not special:
                    table[name] = (ps, is_method)
        for rel, m in self.modules.items():
            if getattr(m, "_kwnorm", False):
                continue
            m._kwnorm = True
            for c in ast.walk(m.tree):
                if not isinstance(c, ast.Call) or not c.keywords or any(isinstance(a, ast.Starred) for a in c.args):
                    continue
                nm = c.func.attr if isinstance(c.func, ast.Attribute) else (c.func.id if isinstance(c.func, ast.Name) else None)
                if nm not in table or any(k.arg is None for k in c.keywords):
                    continue
                ps, is_method = table[nm]
                if is_method and not isinstance(c.func, ast.Attribute):
                    continue  # a bound method needs a receiver; static / module functions may be called either way
                kws = {k.arg: k for k in c.keywords}
                if not set(kws) <= set(ps):
                    continue
                i = len(c.args)
                moved = False
                while i < len(ps) and ps[i] in kws:
                    k = kws.pop(ps[i])
                    k.value._parent = c
                    c.args.append(k.value)
                    c.keywords.remove(k)
                    i += 1
                    moved = True
                if moved:
                    c._kw_moved = True

    # ------------------------------------------------------------------ index
    def mod(self, rel: str) -> Module:
        if rel not in self.modules:
            raise AnalysisError(f"anchor vanished: module {rel}")
        self.consulted.add(rel)
        return self.modules[rel]

    def func(self, rel: str, qual: str) -> ast.FunctionDef:
        m = self.mod(rel)
        if qual not in m.funcs:
            raise AnalysisError(f"anchor vanished: function {rel}::{qual}")
        return m.funcs[qual]

    def has_func(self, rel: str, qual: str) -> bool:
        return rel in self.modules and qual in self.modules[rel].funcs

    def cls(self, rel: str, name: str) -> ast.ClassDef:
        m = self.mod(rel)
        if name not in m.classes:
            raise AnalysisError(f"anchor vanished: class {rel}::{name}")
        return m.classes[name]

    def all_funcs(self, rels=None):
        """Yield (module, qualname, node) for every function."""
        for rel, m in sorted(self.modules.items()):
            if rels is not None and rel not in rels:
                continue
            self.consulted.add(rel)
            for q, f in m.funcs.items():
                yield m, q, f

    def all_classes(self):
        for rel, m in sorted(self.modules.items()):
            for name, c in m.classes.items():
                yield m, name, c

    def subclasses(self, base: str, include_base=False):
        """Transitive subclasses by base *name* (bases resolved by last name)."""
        out = []
        known = {base}
        changed = True
        allc = list(self.all_classes())
        while changed:
            changed = False
            for m, name, c in allc:
                if name in known:
                    continue
                for b in c.bases:
                    bn = b.attr if isinstance(b, ast.Attribute) else getattr(b, "id", None)
                    if bn in known:
                        known.add(name)
                        changed = True
                        break
        for m, name, c in allc:
            if name in known and (include_base or name != base):
                self.consulted.add(m.rel)
                out.append((m, name, c))
        return out

    def method(self, cls_node: ast.ClassDef, name: str):
        """Method `name` of the class or of its (in-repo) bases; None if absent."""
        seen = set()
        todo = [cls_node]
        while todo:
            c = todo.pop(0)
            if id(c) in seen:
                continue
            seen.add(id(c))
            for st in c.body:
                if isinstance(st, FUNC) and st.name == name:
                    return st
            for b in c.bases:
                bn = b.attr if isinstance(b, ast.Attribute) else getattr(b, "id", None)
                for m, n2, c2 in self.all_classes():
                    if n2 == bn:
                        todo.append(c2)
        return None

    def digest(self):
        return {rel: self.modules[rel].sha for rel in sorted(self.consulted)}


# ---------------------------------------------------------------- ast helpers
def loc(node) -> str:
    m = getattr(node, "_mod", None)
    rel = m.rel if m else "?"
    return f"{rel}:{getattr(node, 'lineno', 0)}"


def qual(node) -> str:
    return getattr(node, "_qual", "") or "<module>"


def enclosing_func(node):
    n = getattr(node, "_parent", None)
    while n is not None and not isinstance(n, FUNC):
        n = n._parent
    return n


def enclosing_stmt(node):
    n = node
    while n is not None and not isinstance(n, ast.stmt):
        n = n._parent
    return n


def src(node) -> str:
    """Normalised source of a node (formatting independent)."""
    try:
        return ast.unparse(node)
    except Exception:  # pragma: no cover
        return ast.dump(node)


def short(node, n=110) -> str:
    s = " ".join(src(node).split())
    return s if len(s) <= n else s[: n - 3] + "..."


def call_name(call: ast.Call) -> str:
    """Dotted name of the callee, '' when not a plain dotted name."""
    return dotted(call.func)


def dotted(e) -> str:
    parts = []
    while isinstance(e, ast.Attribute):
        parts.append(e.attr)
        e = e.value
    if isinstance(e, ast.Name):
        parts.append(e.id)
        return ".".join(reversed(parts))
    if isinstance(e, ast.Call):
        inner = dotted(e.func)
        if inner:
            parts.append(inner + "()")
            return ".".join(reversed(parts))
    return ""


def last_name(call: ast.Call) -> str:
    f = call.func
    if isinstance(f, ast.Attribute):
        return f.attr
    if isinstance(f, ast.Name):
        return f.id
    return ""


def calls_in(node, name=None):
    """All Call nodes below node (not descending into nested defs)."""
    out = []

    def walk(n):
        for c in ast.iter_child_nodes(n):
            if isinstance(c, FUNC + (ast.ClassDef, ast.Lambda)):
                continue
            if isinstance(c, ast.Call) and (name is None or last_name(c) == name):
                out.append(c)
            walk(c)

    if isinstance(node, ast.Call) and (name is None or last_name(node) == name):
        out.append(node)
    walk(node)
    return out


def walk_local(node):
    """Pre-order walk in source order that does not descend into nested
    function/class definitions or lambdas."""
    yield node
    stack = [iter(ast.iter_child_nodes(node))]
    while stack:
        try:
            n = next(stack[-1])
        except StopIteration:
            stack.pop()
            continue
        if isinstance(n, FUNC + (ast.ClassDef, ast.Lambda)):
            continue
        yield n
        stack.append(iter(ast.iter_child_nodes(n)))


def const_fold(e, consts=None, depth=0):
    """Fold literals, tuples/lists, + and * of them, names of module constants.

    Returns a Python value or raises ValueError.
    """
    if depth > 20:
        raise ValueError("too deep")
    if isinstance(e, ast.Constant):
        return e.value
    if isinstance(e, (ast.Tuple, ast.List)):
        vals = [const_fold(x, consts, depth + 1) for x in e.elts]
        return tuple(vals) if isinstance(e, ast.Tuple) else vals
    if isinstance(e, ast.Set):
        return {const_fold(x, consts, depth + 1) for x in e.elts}
    if isinstance(e, ast.Dict):
        return {
            const_fold(k, consts, depth + 1): const_fold(v, consts, depth + 1)
            for k, v in zip(e.keys, e.values)
        }
    if isinstance(e, ast.Name) and consts and e.id in consts:
        return const_fold(consts[e.id], consts, depth + 1)
    if isinstance(e, ast.UnaryOp) and isinstance(e.op, ast.USub):
        return -const_fold(e.operand, consts, depth + 1)
    if isinstance(e, ast.BinOp):
        a = const_fold(e.left, consts, depth + 1)
        b = const_fold(e.right, consts, depth + 1)
        if isinstance(e.op, ast.Add):
            return a + b
        if isinstance(e.op, ast.Mult):
            return a * b
        if isinstance(e.op, ast.Sub):
            return a - b
    if isinstance(e, ast.JoinedStr):
        out = ""
        for v in e.values:
            if isinstance(v, ast.Constant):
                out += v.value
            else:
                raise ValueError("non-constant f-string")
        return out
    if isinstance(e, ast.Call) and dotted(e.func) == "len" and len(e.args) == 1:
        return len(const_fold(e.args[0], consts, depth + 1))
    if isinstance(e, ast.Subscript):
        seq = const_fold(e.value, consts, depth + 1)
        if isinstance(seq, (tuple, list, str)):
            sl = e.slice
            if isinstance(sl, ast.Slice):
                lo = None if sl.lower is None else const_fold(sl.lower, consts, depth + 1)
                hi = None if sl.upper is None else const_fold(sl.upper, consts, depth + 1)
                st = None if sl.step is None else const_fold(sl.step, consts, depth + 1)
                if all(x is None or (isinstance(x, int) and not isinstance(x, bool)) for x in (lo, hi, st)):
                    return seq[lo:hi:st]
            else:
                i = const_fold(sl, consts, depth + 1)
                if isinstance(i, int) and not isinstance(i, bool) and -len(seq) <= i < len(seq):
                    return seq[i]
    if isinstance(e, ast.Call) and dotted(e.func) in ("tuple", "list") and len(e.args) == 1 and not e.keywords:
        v = const_fold(e.args[0], consts, depth + 1)
        return tuple(v) if dotted(e.func) == "tuple" else list(v)
    raise ValueError(f"not constant: {ast.dump(e)[:60]}")
