"""Abstract interpretation of an order parameter's calculate() over *geometric types*.

Static: the method body is interpreted over abstract values, never run.

Values
    Sc            a scalar that is invariant under rigid translation and rotation
    Const(v)      a number / loop index (v known or None); a Sc
    Vec(w)        a 3-vector that rotates with the frame; under a rigid translation t of all
                  atoms it changes by w*t  (position: w = 1, difference of positions: w = 0,
                  velocity: w = 0, mean of positions: w = 1)
    Rows(default, rows, n)   array of 3-vectors (system.pos, a fancy-indexed copy of it)
    ScArr         array of invariant scalars
    Box, Idx      box lengths / particle indices (opaque)
    Comp          a Cartesian component or anything computed from one (NOT invariant)

A translation/rotation invariant order parameter returns only Sc values and never feeds a
vector of non-zero translation weight into a product, norm, cross product or the
minimum-image wrap.  Violations are collected with the node; constructs outside the
modelled fragment raise Undecidable (cannot decide - never a violation).
"""

from __future__ import annotations

import ast
import copy
from fractions import Fraction


class Undecidable(Exception):
    pass


class V:
    kind = "?"

    def __repr__(self):
        return self.kind


class Sc(V):
    kind = "scalar"


class Const(Sc):
    kind = "const"

    def __init__(self, v=None):
        self.v = v

    def __repr__(self):
        return f"const({self.v})"


class Vec(V):
    kind = "vector"

    def __init__(self, w):
        self.w = w  # Fraction or None (unknown)

    def __repr__(self):
        return f"vector(w={self.w})"


class Rows(V):
    kind = "rows"

    def __init__(self, default, rows=None, n=None):
        self.default = default
        self.rows = dict(rows or {})
        self.n = n

    def row(self, i):
        if isinstance(i, int) and i in self.rows:
            return self.rows[i]
        if i is None and self.rows:
            # unknown row of an array with individually set rows
            ws = {r.w for r in self.rows.values()} | ({self.default} if (self.n is None or len(self.rows) < self.n) else set())
            return Vec(ws.pop() if len(ws) == 1 else None)
        return Vec(self.default)

    def __repr__(self):
        return f"rows(default w={self.default}, set={ {k: v.w for k, v in self.rows.items()} }, n={self.n})"


class ScArr(V):
    kind = "scalar-array"


class Box(V):
    kind = "box"


class Idx(V):
    kind = "index"

    def __init__(self, n=None):
        self.n = n


class Comp(V):
    kind = "component"


SC_FUNCS = {"sqrt", "arctan2", "arccos", "arcsin", "arctan", "cos", "sin", "tan", "rad2deg", "deg2rad", "abs", "absolute", "fabs",
            "exp", "log", "float", "degrees", "radians", "square", "sign", "minimum", "maximum", "min", "max", "clip", "hypot"}


class Interp:
    def __init__(self, index_len=None, report=None):
        self.index_len = index_len
        self.violations = []  # (node, message)
        self.report = report

    def bad(self, node, msg):
        if not any(n is node and m == msg for n, m in self.violations):
            self.violations.append((node, msg))

    # ---------------------------------------------------------------- expressions
    def need_w0(self, v, node, what):
        if isinstance(v, Vec) and v.w != 0:
            self.bad(node, f"{what} is applied to a vector that moves with the atoms (translation weight {v.w if v.w is not None else 'unknown'}): the result depends on the absolute position of the molecule, not only on differences of positions")
            return Vec(Fraction(0))
        return v

    def ev(self, e, env):
        if isinstance(e, ast.Constant):
            if isinstance(e.value, bool) or e.value is None:
                return Const(e.value)
            if isinstance(e.value, (int, float)):
                return Const(e.value)
            raise Undecidable(f"constant {e.value!r}")
        if isinstance(e, ast.Name):
            if e.id in env:
                return env[e.id]
            raise Undecidable(f"name {e.id} unbound")
        if isinstance(e, ast.Attribute):
            txt = ast.unparse(e)
            if txt.endswith(".pos") and isinstance(e.value, ast.Name):
                return Rows(Fraction(1))
            if txt.endswith(".vel") and isinstance(e.value, ast.Name):
                return Rows(Fraction(0))
            if txt.endswith(".box") and isinstance(e.value, ast.Name):
                return Box()
            if txt == "self.index":
                return Idx(self.index_len)
            if txt in ("np.pi", "numpy.pi", "math.pi", "np.e"):
                return Const(None)
            if txt.startswith("self."):
                return Const(None)  # a configuration attribute (periodic flag, dimension ...)
            raise Undecidable(f"attribute {txt}")
        if isinstance(e, ast.UnaryOp):
            v = self.ev(e.operand, env)
            if isinstance(e.op, (ast.USub, ast.UAdd)):
                if isinstance(v, Const):
                    return Const(-v.v if (v.v is not None and isinstance(e.op, ast.USub)) else v.v)
                if isinstance(v, Vec):
                    return Vec(-v.w if v.w is not None and isinstance(e.op, ast.USub) else v.w)
                return v
            if isinstance(e.op, ast.Not):
                return Const(None)
            raise Undecidable("unary operator")
        if isinstance(e, ast.BinOp):
            return self.binop(e.op, self.ev(e.left, env), self.ev(e.right, env), e)
        if isinstance(e, ast.Subscript):
            return self.subscript(e, env)
        if isinstance(e, ast.Call):
            return self.call(e, env)
        if isinstance(e, (ast.List, ast.Tuple)):
            vals = [self.ev(x, env) for x in e.elts]
            if all(isinstance(v, Sc) for v in vals):
                return ScArr()
            if any(isinstance(v, Comp) for v in vals):
                return Comp()
            raise Undecidable("list of non-scalars")
        if isinstance(e, (ast.ListComp, ast.GeneratorExp)):
            # [f(i) for i in range(<constants>)]: the element is evaluated for every i (unrolled)
            if len(e.generators) != 1 or e.generators[0].ifs or e.generators[0].is_async:
                raise Undecidable("comprehension with a filter / several generators")
            g = e.generators[0]
            if not (isinstance(g.iter, ast.Call) and isinstance(g.iter.func, ast.Name) and g.iter.func.id == "range" and isinstance(g.target, ast.Name)):
                raise Undecidable("comprehension that is not over range(<constants>)")
            rargs = []
            for a in g.iter.args:
                v = self.ev(a, env)
                if not (isinstance(v, Const) and isinstance(v.v, int)):
                    raise Undecidable("comprehension bound is not a constant")
                rargs.append(v.v)
            vals = []
            for i in range(*rargs):
                env2 = dict(env)
                env2[g.target.id] = Const(i)
                vals.append(self.ev(e.elt, env2))
            if all(isinstance(v, Sc) for v in vals):
                return ScArr()
            if any(isinstance(v, Comp) for v in vals):
                return Comp()
            raise Undecidable("comprehension of non-scalars")
        if isinstance(e, ast.Compare):
            for x in [e.left] + e.comparators:
                self.ev(x, env)
            return Const(None)
        if isinstance(e, ast.BoolOp):
            for x in e.values:
                self.ev(x, env)
            return Const(None)
        if isinstance(e, ast.IfExp):
            a, b = self.ev(e.body, env), self.ev(e.orelse, env)
            if type(a) is type(b) or (isinstance(a, Sc) and isinstance(b, Sc)):
                return a if not isinstance(a, Const) else Sc()
            raise Undecidable("conditional expression of two kinds")
        raise Undecidable(f"expression {type(e).__name__}")

    def binop(self, op, a, b, node):
        if isinstance(a, Comp) or isinstance(b, Comp):
            return Comp()
        if isinstance(op, (ast.Add, ast.Sub)):
            sgn = 1 if isinstance(op, ast.Add) else -1
            if isinstance(a, Vec) and isinstance(b, Vec):
                w = None if (a.w is None or b.w is None) else a.w + sgn * b.w
                return Vec(w)
            if isinstance(a, Sc) and isinstance(b, Sc):
                if isinstance(a, Const) and isinstance(b, Const):
                    v = None
                    if a.v is not None and b.v is not None and not isinstance(a.v, bool) and not isinstance(b.v, bool):
                        v = a.v + sgn * b.v
                    return Const(v)
                return Sc()
            if isinstance(a, ScArr) and isinstance(b, (ScArr, Sc)) or isinstance(b, ScArr) and isinstance(a, Sc):
                return ScArr()
            if isinstance(a, Rows) and isinstance(b, Vec):
                # broadcasting a vector over rows
                w = lambda r: None if (r.w is None or b.w is None) else r.w + sgn * b.w
                return Rows(w(Vec(a.default)), {k: Vec(w(v)) for k, v in a.rows.items()}, a.n)
            if isinstance(a, Vec) and isinstance(b, Sc) or isinstance(a, Sc) and isinstance(b, Vec):
                self.bad(node, "a scalar is added to every component of a vector: the result does not rotate with the frame")
                return Comp()
            raise Undecidable(f"{type(op).__name__} of {a} and {b}")
        if isinstance(op, ast.Mult):
            if isinstance(a, Vec) and isinstance(b, Vec):
                self.bad(node, "component-wise product of two vectors is not rotation invariant")
                return Comp()
            if isinstance(a, Vec) or isinstance(b, Vec):
                v, s = (a, b) if isinstance(a, Vec) else (b, a)
                if not isinstance(s, Sc):
                    raise Undecidable(f"vector times {s}")
                if isinstance(s, Const) and s.v is not None and not isinstance(s.v, bool):
                    return Vec(None if v.w is None else v.w * Fraction(str(s.v)))
                return Vec(Fraction(0) if v.w == 0 else None)
            if isinstance(a, Rows) or isinstance(b, Rows):
                r, s = (a, b) if isinstance(a, Rows) else (b, a)
                if isinstance(s, Const) and s.v is not None:
                    f = Fraction(str(s.v))
                    return Rows(None if r.default is None else r.default * f, {k: Vec(None if v.w is None else v.w * f) for k, v in r.rows.items()}, r.n)
                raise Undecidable("array of vectors times a non-constant")
            if isinstance(a, (Sc, ScArr)) and isinstance(b, (Sc, ScArr)):
                if isinstance(a, ScArr) or isinstance(b, ScArr):
                    return ScArr()
                if isinstance(a, Const) and isinstance(b, Const):
                    v = None
                    if a.v is not None and b.v is not None and not isinstance(a.v, bool) and not isinstance(b.v, bool):
                        v = a.v * b.v
                    return Const(v)
                return Sc()
            if isinstance(a, Box) and isinstance(b, Const) or isinstance(b, Box) and isinstance(a, Const):
                return Box()  # box lengths scaled by a constant (half lengths): still per-axis box data
            raise Undecidable(f"product of {a} and {b}")
        if isinstance(op, (ast.Div, ast.FloorDiv)):
            if isinstance(b, Vec) or isinstance(b, Rows):
                self.bad(node, "division by a vector is component-wise: not rotation invariant")
                return Comp()
            if isinstance(a, Vec) and isinstance(b, Sc):
                if isinstance(b, Const) and b.v not in (None, 0) and not isinstance(b.v, bool):
                    return Vec(None if a.w is None else a.w / Fraction(str(b.v)))
                return Vec(Fraction(0) if a.w == 0 else None)
            if isinstance(a, (Sc, ScArr)) and isinstance(b, Sc):
                return ScArr() if isinstance(a, ScArr) else (Const(None) if isinstance(a, Const) and isinstance(b, Const) else Sc())
            raise Undecidable(f"quotient of {a} and {b}")
        if isinstance(op, ast.Pow):
            if isinstance(a, Vec):
                self.bad(node, "power of a vector is component-wise: not rotation invariant")
                return Comp()
            if isinstance(a, (Sc, ScArr)) and isinstance(b, Sc):
                return ScArr() if isinstance(a, ScArr) else (Const(None) if isinstance(a, Const) and isinstance(b, Const) else Sc())
            raise Undecidable("power")
        if isinstance(op, ast.Mod):
            if isinstance(a, Sc) and isinstance(b, Sc):
                return Const(None) if isinstance(a, Const) and isinstance(b, Const) else Sc()
            if isinstance(a, Vec):
                self.bad(node, "modulo of a vector is component-wise: not rotation invariant")
                return Comp()
        if isinstance(op, ast.MatMult):
            if isinstance(a, Vec) and isinstance(b, Vec):
                self.need_w0(a, node, "the scalar product")
                self.need_w0(b, node, "the scalar product")
                return Sc()
        raise Undecidable(f"operator {type(op).__name__} on {a}, {b}")

    def index_value(self, s, env):
        """int for a known row index, None for an unknown one, 'slice' for ':'."""
        if isinstance(s, ast.Slice):
            if s.lower is None and s.upper is None and s.step is None:
                return "slice"
            return "part"
        v = self.ev(s, env)
        if isinstance(v, Const) and isinstance(v.v, int) and not isinstance(v.v, bool):
            return v.v
        if isinstance(v, (Const, Idx)):
            return None
        raise Undecidable(f"subscript {ast.unparse(s)} of kind {v}")

    def subscript(self, e, env):
        base = self.ev(e.value, env)
        sl = e.slice
        if isinstance(base, Idx):
            if isinstance(sl, ast.Slice):
                return Idx(None)
            return Const(None)
        if isinstance(base, Box):
            return Box()
        if isinstance(base, Rows):
            if isinstance(sl, ast.Tuple) and len(sl.elts) == 2:
                i = self.index_value(sl.elts[0], env)
                j = self.index_value(sl.elts[1], env)
                if i == "slice":
                    if j == "slice":
                        return base
                    return Comp()  # a coordinate column
                if j == "slice":
                    return base.row(i if isinstance(i, int) else None)
                return Comp()
            v = self.ev(sl, env) if not isinstance(sl, ast.Slice) else None
            if isinstance(v, Idx):
                # fancy indexing: a new array with one row per selected particle
                return Rows(base.default, {}, v.n)
            i = self.index_value(sl, env)
            if i in ("slice",):
                return base
            if i == "part":
                return Rows(base.default, {}, None)
            return base.row(i if isinstance(i, int) else None)
        if isinstance(base, Vec):
            i = self.index_value(sl, env)
            if i == "slice":
                return base
            return Comp()
        if isinstance(base, ScArr):
            i = self.index_value(sl, env)
            return ScArr() if i in ("slice", "part") else Sc()
        if isinstance(base, Comp):
            return Comp()
        raise Undecidable(f"subscript of {base}")

    def call(self, e, env):
        fn = e.func
        name = fn.attr if isinstance(fn, ast.Attribute) else (fn.id if isinstance(fn, ast.Name) else None)
        if name is None:
            raise Undecidable("computed callee")
        args = [self.ev(a, env) for a in e.args]
        pos_args = list(e.args)
        if isinstance(fn, ast.Attribute) and ast.unparse(fn.value) not in ("np", "numpy", "math", "np.linalg", "numpy.linalg", "self"):
            # method form: x.mean(axis=0), a.dot(b), v.copy()
            args = [self.ev(fn.value, env)] + args
            pos_args = [fn.value] + pos_args
        kw = {k.arg: k.value for k in e.keywords}
        if any(isinstance(a, Comp) for a in args):
            return Comp()
        if name in ("array", "asarray", "copy", "float64", "squeeze"):
            return args[0]
        if name == "list" and args and isinstance(args[0], Idx):
            return args[0]
        if name == "dot" or name == "inner" or name == "vdot":
            a, b = args[0], args[1]
            if isinstance(a, Vec) and isinstance(b, Vec):
                self.need_w0(a, e, "the scalar product")
                self.need_w0(b, e, "the scalar product")
                return Sc()
            if isinstance(a, Sc) and isinstance(b, Sc):
                return Sc()
            raise Undecidable(f"dot of {a}, {b}")
        if name == "cross":
            a, b = args[0], args[1]
            if isinstance(a, Vec) and isinstance(b, Vec):
                self.need_w0(a, e, "the cross product")
                self.need_w0(b, e, "the cross product")
                return Vec(Fraction(0))
            raise Undecidable("cross of non-vectors")
        if name == "norm":
            a = args[0]
            if isinstance(a, Vec):
                self.need_w0(a, e, "the norm")
                return Sc()
            if isinstance(a, (ScArr, Sc)):
                return Sc()
            raise Undecidable(f"norm of {a}")
        if name == "pbc_dist_coordinate":
            a = args[0]
            if isinstance(a, Vec):
                self.need_w0(a, e, "the minimum-image wrap")
                return Vec(Fraction(0))
            raise Undecidable(f"wrap of {a}")
        if name == "mean" or name == "average":
            a = args[0]
            ax = kw.get("axis") or (pos_args[1] if len(pos_args) > 1 else None)
            if isinstance(a, Rows) and ax is not None and isinstance(ax, ast.Constant) and ax.value == 0:
                if not a.rows:
                    return Vec(a.default)
                if a.n is not None and set(a.rows) >= set(range(a.n)):
                    ws = [a.rows[i].w for i in range(a.n)]
                    if any(w is None for w in ws):
                        return Vec(None)
                    return Vec(sum(ws, Fraction(0)) / a.n)
                ws = {v.w for v in a.rows.values()} | {a.default}
                return Vec(ws.pop() if len(ws) == 1 else None)
            if isinstance(a, (ScArr, Sc)):
                return Sc()
            if isinstance(a, Vec):
                self.bad(e, "mean over the components of a vector is not rotation invariant")
                return Comp()
            if isinstance(a, Rows) and ax is None:
                self.bad(e, "the mean is taken over all elements of an array of vectors (no axis=0): it mixes the Cartesian components of all atoms into one number, which is not the centroid - subtracting it shifts the atoms along (1,1,1) by an amount that depends on the absolute position and orientation of the molecule, so the result is neither translation nor rotation invariant")
                return Comp()
            raise Undecidable(f"mean of {a}")
        if name == "sum":
            a = args[0]
            if isinstance(a, (ScArr, Sc)):
                return Sc()
            if isinstance(a, Vec):
                self.bad(e, "sum over the components of a vector is not rotation invariant")
                return Comp()
            if isinstance(a, Rows):
                raise Undecidable("sum over rows")
        if name in ("zeros", "empty", "ones"):
            a0 = pos_args[0] if pos_args else None
            if isinstance(a0, ast.Constant) and a0.value == 3 and name != "ones":
                return Vec(Fraction(0))
            if isinstance(a0, ast.Constant) and isinstance(a0.value, int):
                return ScArr()
            raise Undecidable("array allocation of unknown shape")
        if name in ("zeros_like", "empty_like") and args:
            a = args[0]
            if isinstance(a, Vec):
                return Vec(Fraction(0))
            if isinstance(a, ScArr):
                return ScArr()
        if name in SC_FUNCS:
            if all(isinstance(a, Sc) for a in args):
                return Const(None) if all(isinstance(a, Const) for a in args) else Sc()
            if all(isinstance(a, (Sc, ScArr)) for a in args):
                return ScArr()
            if any(isinstance(a, (Vec, Rows)) for a in args):
                self.bad(e, f"{name}() of a vector acts on its components: not rotation invariant")
                return Comp()
        if name == "len":
            return Const(None)
        meths = getattr(self, "methods", None) or {}
        if isinstance(fn, ast.Attribute) and isinstance(fn.value, ast.Name) and fn.value.id == "self" and name in meths and getattr(self, "_depth", 0) < 2 \
                and len(e.args) == 1 and isinstance(e.args[0], ast.Name) and not e.keywords:
            # a helper method of the class that is handed the system: interpret its body
            h = meths[name]
            hp = [a.arg for a in h.args.args]
            if len(hp) == 2:
                self._depth = getattr(self, "_depth", 0) + 1
                try:
                    states, results = self.run(h.body, {hp[0]: Const(None), hp[1]: Const(None)})
                finally:
                    self._depth -= 1
                kinds = [v for s_, ret, st_ in results for node_, v in ret]
                if kinds and not states and all(type(k) is type(kinds[0]) for k in kinds):
                    return kinds[0]
                raise Undecidable(f"helper method {name}() returns values of different kinds")
        if args and all(isinstance(a, Box) for a in args) and isinstance(fn, ast.Name):
            # a helper applied to the box alone cannot depend on where the atoms are
            return Box()
        if name == "range":
            raise Undecidable("range outside a for statement")
        raise Undecidable(f"call of {name}()")

    # ---------------------------------------------------------------- statements
    def run(self, body, env):
        """Execute statements; returns list of (env, returned values or None) per path."""
        states = [env]
        results = []
        for i, st in enumerate(body):
            new_states = []
            for s in states:
                for s2, ret in self.stmt(st, s):
                    if ret is not None:
                        results.append((s2, ret, st))
                    else:
                        new_states.append(s2)
            states = new_states
            if len(states) > 64:
                raise Undecidable("too many paths")
        return states, results

    def assign(self, target, val, env, node):
        if isinstance(target, ast.Name):
            env[target.id] = val
            return
        if isinstance(target, ast.Subscript):
            base = self.ev(target.value, env)
            sl = target.slice
            if isinstance(base, Rows) and isinstance(target.value, ast.Name):
                if isinstance(sl, ast.Tuple) and len(sl.elts) == 2:
                    i, j = self.index_value(sl.elts[0], env), self.index_value(sl.elts[1], env)
                    if j != "slice":
                        self.bad(node, "a single Cartesian component of a position is overwritten: not rotation invariant")
                        return
                else:
                    i = self.index_value(sl, env)
                if not isinstance(val, Vec):
                    if isinstance(val, Comp):
                        self.bad(node, "a row of positions is overwritten with a component-wise quantity")
                        return
                    raise Undecidable(f"row store of {val}")
                nb = Rows(base.default, base.rows, base.n)
                if isinstance(i, int):
                    nb.rows[i] = val
                else:
                    raise Undecidable("row store at an unknown index")
                env[target.value.id] = nb
                return
            if isinstance(base, ScArr):
                if isinstance(val, Comp):
                    env[target.value.id] = Comp()
                elif not isinstance(val, (Sc, ScArr)):
                    raise Undecidable(f"scalar-array store of {val}")
                return
            if isinstance(base, Vec) and isinstance(target.value, ast.Name):
                i = self.index_value(sl, env)
                if i == "slice":
                    env[target.value.id] = val
                    return
                self.bad(node, "a single Cartesian component of a vector is overwritten: not rotation invariant")
                env[target.value.id] = Comp()
                return
            if isinstance(base, Comp):
                return
        raise Undecidable(f"assignment target {ast.unparse(target)}")

    def stmt(self, st, env):
        env = dict(env)
        if isinstance(st, ast.Expr):
            if isinstance(st.value, ast.Constant):
                return [(env, None)]
            if isinstance(st.value, ast.Call) and ast.unparse(st.value.func).startswith(("logger.", "logging.", "print")):
                return [(env, None)]
            self.ev(st.value, env)
            return [(env, None)]
        if isinstance(st, ast.Assign) and len(st.targets) == 1:
            t = st.targets[0]
            if isinstance(t, ast.Tuple):
                raise Undecidable("tuple assignment")
            self.assign(t, self.ev(st.value, env), env, st)
            return [(env, None)]
        if isinstance(st, ast.AnnAssign) and st.value is not None:
            self.assign(st.target, self.ev(st.value, env), env, st)
            return [(env, None)]
        if isinstance(st, ast.AugAssign):
            cur = self.ev(st.target, env)
            val = self.binop(st.op, cur, self.ev(st.value, env), st)
            self.assign(st.target, val, env, st)
            return [(env, None)]
        if isinstance(st, ast.If):
            self.ev(st.test, env)
            out = []
            for branch in (st.body, st.orelse):
                states, results = self.run(branch, dict(env))
                out += [(s, None) for s in states] + [(s, r) for s, r, _ in results]
            return out
        if isinstance(st, ast.For):
            it = st.iter
            if not (isinstance(it, ast.Call) and isinstance(it.func, ast.Name) and it.func.id == "range" and isinstance(st.target, ast.Name)):
                raise Undecidable("loop that is not `for i in range(<constants>)`")
            rargs = []
            for a in it.args:
                v = self.ev(a, env)
                if not (isinstance(v, Const) and isinstance(v.v, int)):
                    raise Undecidable("loop bound is not a constant")
                rargs.append(v.v)
            states = [env]
            for i in range(*rargs):
                nxt = []
                for s in states:
                    s = dict(s)
                    s[st.target.id] = Const(i)
                    ss, results = self.run(st.body, s)
                    if results:
                        raise Undecidable("return inside a loop")
                    nxt += ss
                states = nxt
                if len(states) > 64:
                    raise Undecidable("too many paths")
            return [(s, None) for s in states]
        if isinstance(st, ast.Return):
            v = st.value
            if isinstance(v, (ast.List, ast.Tuple)):
                return [(env, [(x, self.ev(x, env)) for x in v.elts])]
            return [(env, [(v, self.ev(v, env))])]
        if isinstance(st, ast.Pass):
            return [(env, None)]
        if isinstance(st, ast.Raise):
            return []
        raise Undecidable(f"statement {type(st).__name__}")


def analyse_calculate(func, index_len=None, methods=None):
    """Returns (violations, n_paths, n_returns). Raises Undecidable."""
    it = Interp(index_len)
    it.methods = methods or {}
    params = [a.arg for a in func.args.args]
    env = {}
    if len(params) < 2:
        raise Undecidable("calculate(self, system) expected")
    env[params[0]] = Const(None)
    env[params[1]] = Const(None)  # attribute access on it is interpreted by name (.pos/.vel/.box)
    try:
        states, results = it.run(func.body, env)
    except Undecidable:
        if it.violations:
            # what was decided before the fragment ended stands: a violation on the way is a violation
            return it.violations, 0, 0
        raise
    nret = 0
    for s, ret, st in results:
        for node, v in ret:
            nret += 1
            if isinstance(v, ScArr):
                continue
            if not isinstance(v, Sc):
                what = {"component": "a Cartesian component (or a quantity computed from one)", "vector": "a vector", "rows": "an array of vectors"}.get(v.kind, v.kind)
                it.bad(node, f"the order parameter returns {what}: it changes under a rotation of the whole system" + (" and under a rigid translation" if isinstance(v, Vec) and v.w != 0 else ""))
    if states:
        raise Undecidable("a path of calculate() ends without return")
    return it.violations, len(results), nret
