"""Small helpers shared by the rule modules."""

from __future__ import annotations

import ast

from .loader import FUNC, AnalysisError, Tree, dotted, last_name, walk_local

REPEX = "infretis/classes/repex.py"
TIS = "infretis/core/tis.py"
SETUP = "infretis/setup.py"
SCHED = "infretis/scheduler.py"
ASYNC = "infretis/asyncrunner.py"
PATH = "infretis/classes/path.py"
SYSTEM = "infretis/classes/system.py"
FORMATTER = "infretis/classes/formatter.py"
ORDERP = "infretis/classes/orderparameter.py"
FACTORY = "infretis/classes/engines/factory.py"
ENGBASE = "infretis/classes/engines/enginebase.py"
ENGPARTS = "infretis/classes/engines/engineparts.py"
GROMACS = "infretis/classes/engines/gromacs.py"
CP2K = "infretis/classes/engines/cp2k.py"
LAMMPS = "infretis/classes/engines/lammps.py"
ASE = "infretis/classes/engines/ase_engine.py"
TURTLE = "infretis/classes/engines/turtlemdengine.py"
AMS = "infretis/classes/engines/ams.py"
TOOLS_PREFIX = "infretis/tools/"


def loops_of(node):
    """Enclosing for/while statements inside the function (innermost first)."""
    out = []
    n = getattr(node, "_parent", None)
    while n is not None and not isinstance(n, FUNC):
        if isinstance(n, (ast.For, ast.AsyncFor, ast.While)):
            out.append(n)
        # comprehension bodies count as loops for "fresh per iteration" purposes
        n = n._parent
    return out


def kwarg(call: ast.Call, name: str, pos: int | None = None):
    for k in call.keywords:
        if k.arg == name:
            return k.value
    if pos is not None and len(call.args) > pos:
        a = call.args[pos]
        if not isinstance(a, ast.Starred):
            return a
    return None


def has_star_kwargs(call: ast.Call) -> bool:
    return any(k.arg is None for k in call.keywords)


def class_of(node):
    n = getattr(node, "_parent", None)
    while n is not None:
        if isinstance(n, ast.ClassDef):
            return n
        n = getattr(n, "_parent", None)
    return None


def all_calls(tree: Tree, rels=None, skip_tools=True):
    """Yield (module, function node, call) for every call in every function."""
    for m, q, f in tree.all_funcs(rels):
        if skip_tools and m.rel.startswith(TOOLS_PREFIX):
            continue
        for n in walk_local(f):
            if isinstance(n, ast.Call):
                yield m, f, n


def last_key(e):
    """Constant string key of the outermost subscript of e, else None."""
    if isinstance(e, ast.Subscript) and isinstance(e.slice, ast.Constant):
        if isinstance(e.slice.value, str):
            return e.slice.value
    return None


def keys_chain(e):
    """All constant string keys along a subscript chain, outermost last."""
    out = []
    while isinstance(e, (ast.Subscript, ast.Attribute, ast.Call)):
        if isinstance(e, ast.Subscript):
            k = last_key(e)
            out.append(k if k is not None else "*")
            e = e.value
        elif isinstance(e, ast.Attribute):
            out.append("." + e.attr)
            e = e.value
        else:
            # d.get("k", default) is a read of key k
            if (
                isinstance(e.func, ast.Attribute)
                and e.func.attr == "get"
                and e.args
                and isinstance(e.args[0], ast.Constant)
            ):
                out.append(e.args[0].value)
                e = e.func.value
            else:
                break
    base = e.id if isinstance(e, ast.Name) else None
    return base, list(reversed(out))


def param_index(func, name):
    names = [a.arg for a in func.args.posonlyargs + func.args.args]
    if name in names:
        i = names.index(name)
        if names and names[0] in ("self", "cls"):
            return i - 1
        return i
    return None


def arg_for_param(call: ast.Call, func, name):
    """Expression passed for parameter `name` of func at this call (or None)."""
    for k in call.keywords:
        if k.arg == name:
            return k.value
    i = param_index(func, name)
    if i is not None and i < len(call.args):
        a = call.args[i]
        if not isinstance(a, ast.Starred):
            return a
    return None


def is_self_attr(e, attr=None):
    return (
        isinstance(e, ast.Attribute)
        and isinstance(e.value, ast.Name)
        and e.value.id == "self"
        and (attr is None or e.attr == attr)
    )


def stmt_index(body, node):
    for i, st in enumerate(body):
        if st is node:
            return i
    return -1


def strip_docstring(body):
    if body and isinstance(body[0], ast.Expr) and isinstance(body[0].value, ast.Constant) and isinstance(body[0].value.value, str):
        return body[1:]
    return body


_FLIPOP = {ast.Lt: ast.Gt, ast.Gt: ast.Lt, ast.LtE: ast.GtE, ast.GtE: ast.LtE, ast.Eq: ast.Eq, ast.NotEq: ast.NotEq}


def oriented(cmp_node, left_pred):
    """(lhs, op, rhs) of a binary comparison, turned so that left_pred(lhs) holds (the operator is
    mirrored when the operands are exchanged); None when neither side satisfies the predicate or
    the node is not a single-operator comparison. Rules use this instead of relying on the
    orientation in which a comparison happens to be written / canonicalised."""
    if not (isinstance(cmp_node, ast.Compare) and len(cmp_node.ops) == 1):
        return None
    l, r, op = cmp_node.left, cmp_node.comparators[0], cmp_node.ops[0]
    if left_pred(l):
        return l, op, r
    if left_pred(r) and type(op) in _FLIPOP:
        return r, _FLIPOP[type(op)](), l
    return None


def cmp_text(cmp_node, left_pred):
    """Text `lhs OP rhs` of a comparison oriented by left_pred, or None."""
    o = oriented(cmp_node, left_pred)
    if o is None:
        return None
    sym = {ast.Lt: "<", ast.Gt: ">", ast.LtE: "<=", ast.GtE: ">=", ast.Eq: "==", ast.NotEq: "!=", ast.Is: "is", ast.IsNot: "is not", ast.In: "in", ast.NotIn: "not in"}[type(o[1])]
    return f"{ast.unparse(o[0])} {sym} {ast.unparse(o[2])}"
